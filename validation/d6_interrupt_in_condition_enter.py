"""Deterministic reproduction of open finding D6 (C17): a KeyboardInterrupt that surfaces inside
threading.Condition.__enter__ (a Python-level wrapper) *after* the queue's mutex was acquired, while the caller
enters queue.join(), leaves that mutex locked; shutdown() then blocks for ever in queue.put().

CPython checks for pending signals after the C call `self._lock.__enter__()` returns, i.e. inside the wrapper;
here a trace function raises the KeyboardInterrupt at exactly that point instead of waiting for the timing to occur.
Exit status 1 = run() hung (finding reproduced), 0 = run() raised KeyboardInterrupt and returned.
run: PYTHONPATH=/repo/src /venv/bin/python validation/d6_interrupt_in_condition_enter.py
"""
import os
import sys
import threading
import time

import uberjob

fired = []


def tracer(frame, event, arg):
    code = frame.f_code
    if event == "call" and code.co_name == "__enter__" and code.co_filename.endswith("threading.py"):
        caller = frame.f_back
        if caller is not None and caller.f_code.co_name == "join" and caller.f_code.co_filename.endswith("queue.py") and not fired:
            def local(frame, event, arg):
                if event == "return" and not fired:
                    fired.append(1)
                    raise KeyboardInterrupt  # the lock has been acquired, the with-statement has not been entered yet
                return local
            return local
    return None


def slow():
    time.sleep(0.5)
    return 1


plan = uberjob.Plan()
out = [plan.call(slow) for _ in range(3)]
result = {}


def watchdog():
    time.sleep(8)
    print("HUNG: uberjob.run did not return 8 s after the KeyboardInterrupt; caller stack:")
    import traceback

    traceback.print_stack(sys._current_frames()[threading.main_thread().ident])
    os._exit(1)


threading.Thread(target=watchdog, daemon=True).start()
sys.settrace(tracer)
try:
    uberjob.run(plan, output=out, max_workers=2, progress=None)
    print("run returned normally (interrupt point not reached)")
except KeyboardInterrupt:
    print("run raised KeyboardInterrupt and returned: ok")
finally:
    sys.settrace(None)
sys.exit(0)
