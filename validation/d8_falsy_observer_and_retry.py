"""D8: a progress observer (or a custom retry decorator) whose truth value is False is silently replaced by the default in the run phase.

    PYTHONPATH=/repo/src /venv/bin/python validation/d8_falsy_observer_and_retry.py      # exits 1 while the defect is present
"""
import sys

import uberjob
from uberjob.progress import Progress, ProgressObserver


class FailureCollector(ProgressObserver, list):
    """An ordinary way to write an observer that only collects failures: it IS the list of failed exceptions - empty (falsy) until the
    first failure is reported."""

    def __enter__(self):
        pass

    def __exit__(self, *a):
        pass

    def increment_total(self, *, section, scope, amount):
        pass

    def increment_running(self, *, section, scope):
        pass

    def increment_completed(self, *, section, scope):
        pass

    def increment_failed(self, *, section, scope, exception):
        self.append((section, scope, exception))

    __hash__ = object.__hash__


class CountingRetry:
    """A retry decorator object that keeps statistics; len() = number of retries performed so far (0 at the start: falsy)."""

    def __init__(self):
        self.retries = 0

    def __len__(self):
        return self.retries

    def __call__(self, f):
        def wrapper(*a, **k):
            try:
                return f(*a, **k)
            except Exception:
                self.retries += 1
                return f(*a, **k)
        return wrapper


bad = []
log = FailureCollector()
plan = uberjob.Plan()
x = plan.call(lambda: 1 / 0)
try:
    uberjob.run(plan, output=x, progress=Progress(lambda: log))
except uberjob.CallError:
    pass
if not log:
    bad.append("a call failed and run raised CallError, but the observer (falsy when the run phase started) was never told: no 'failed' notification")

attempts = []


def flaky():
    attempts.append(1)
    if len(attempts) == 1:
        raise ValueError("first attempt fails")
    return 7


plan = uberjob.Plan()
y = plan.call(flaky)
try:
    r = uberjob.run(plan, output=y, retry=CountingRetry(), progress=None)
except uberjob.CallError as e:
    bad.append(f"a custom retry decorator object that is falsy was ignored: the call was attempted {len(attempts)} time(s) and run raised {e.__cause__!r}")
print("\n".join(bad) or "ok")
sys.exit(1 if bad else 0)
