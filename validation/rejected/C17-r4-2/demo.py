"""
C17 demo 2: Ctrl-C while the console progress report is being written to a slow stdout.

Setting: the default console display, combined (progress=(mine, console_progress)) with a small user-defined
observer, and a stdout that is slow (think of a congested ssh session or a pipe into a slow consumer).

Schedule that is forced here:
  t=0      calls `long_call` and `quick` start on the two workers; `quick` returns at once and the same worker goes on
           to `second`: it passes run's "are we stopping?" check and announces the call to the observers.
           The user-defined observer holds that announcement until the console report begins to be written.
  t=3      the console observer produces its first report (initial_update_delay); stdout is slow for ~2.5 s.
  t=4      SIGINT is delivered to the calling thread; `long_call` is executing.

Expected (C17): `second` was announced and started at t=3, before the interrupt, so it is simply an in-flight call
that runs to completion; nothing is *started* after the interrupt; KeyboardInterrupt propagates; no thread is left.

Exit status 0 when that holds, 1 (with a description) otherwise.
"""
import signal
import sys
import threading
import time

import uberjob
from uberjob.progress import Progress, ProgressObserver, console_progress

events = []  # (name, "start"/"end", time)
events_lock = threading.Lock()
printing_started = threading.Event()
interrupt_sent = threading.Event()
interrupt_time = [None]

SLOW_FOR = 2.5  # seconds for which stdout is slow once the first report begins
SLOW_WRITE = 0.25  # seconds per write() call while slow
INTERRUPT_AFTER = 1.0  # seconds after the report began


def log(name, what):
    with events_lock:
        events.append((name, what, time.monotonic()))


class SlowStdout:
    """A stdout whose write() calls are slow for a while after the first one. Output is discarded."""

    def __init__(self):
        self._slow_until = None

    def write(self, text):
        now = time.monotonic()
        if self._slow_until is None:
            self._slow_until = now + SLOW_FOR
            printing_started.set()
        if now < self._slow_until:
            time.sleep(SLOW_WRITE)
        return len(text)

    def flush(self):
        pass


def long_call():
    log("long_call", "start")
    interrupt_sent.wait(20)
    time.sleep(0.3)
    log("long_call", "end")


def quick():
    log("quick", "start")
    log("quick", "end")
    return 1


def second(x):
    log("second", "start")
    interrupt_sent.wait(20)
    time.sleep(0.1)
    log("second", "end")
    return x + 1


class AnnouncingObserver(ProgressObserver):
    """A user-defined observer; it delays the announcement of `second` until the console report has begun."""

    def __enter__(self):
        pass

    def __exit__(self, exc_type, exc_val, exc_tb):
        pass

    def increment_total(self, *, section, scope, amount):
        pass

    def increment_running(self, *, section, scope):
        if section == "run" and str(scope[-1]).endswith("second"):
            printing_started.wait(15)

    def increment_completed(self, *, section, scope):
        pass

    def increment_failed(self, *, section, scope, exception):
        pass


def interrupter():
    if not printing_started.wait(15):
        return
    time.sleep(INTERRUPT_AFTER)
    interrupt_time[0] = time.monotonic()
    signal.pthread_kill(threading.main_thread().ident, signal.SIGINT)
    interrupt_sent.set()


def main():
    plan = uberjob.Plan()
    long_node = plan.call(long_call)
    out = plan.call(second, plan.call(quick))
    output = [long_node, out]

    threads_before = set(threading.enumerate())
    helper = threading.Thread(target=interrupter)
    helper.start()
    threads_before.add(helper)

    real_stdout = sys.stdout
    sys.stdout = SlowStdout()
    outcome = None
    try:
        try:
            uberjob.run(
                plan,
                output=output,
                max_workers=2,
                progress=(Progress(AnnouncingObserver), console_progress),
            )
            outcome = "run() returned normally"
        except KeyboardInterrupt:
            outcome = "KeyboardInterrupt"
        except BaseException as exception:
            outcome = f"{type(exception).__name__}: {exception}"
    finally:
        sys.stdout = real_stdout
        interrupt_sent.set()
        helper.join()

    problems = []
    if outcome != "KeyboardInterrupt":
        problems.append(f"KeyboardInterrupt did not propagate to the caller of run(); got: {outcome}")
    t_int = interrupt_time[0]
    if t_int is None:
        problems.append("the interrupt was never sent (the console report never began)")
    else:
        executing = [
            name
            for name in {n for n, _, _ in events}
            if any(n == name and w == "start" and t <= t_int for n, w, t in events)
            and not any(n == name and w == "end" and t <= t_int for n, w, t in events)
        ]
        if not executing:
            problems.append("no call was executing when the interrupt was delivered (bad schedule)")
        for name, what, t in events:
            if what == "start" and t > t_int + 0.05:
                problems.append(
                    f"call {name!r} was started {t - t_int:.2f}s AFTER the interrupt was delivered "
                    f"(while {sorted(executing)} was executing)"
                )
        started = {name for name, what, _ in events if what == "start"}
        ended = {name for name, what, _ in events if what == "end"}
        if started != ended:
            problems.append(f"calls started but not completed: {sorted(started - ended)}")
    time.sleep(0.1)
    leftover = [t for t in threading.enumerate() if t not in threads_before and t.is_alive()]
    if leftover:
        problems.append(f"threads left behind: {leftover}")

    if problems:
        print("C17 VIOLATED:")
        for problem in problems:
            print("  -", problem)
        return 1
    print("ok: nothing was started after the interrupt; in-flight calls finished; KeyboardInterrupt propagated")
    return 0


if __name__ == "__main__":
    sys.exit(main())
