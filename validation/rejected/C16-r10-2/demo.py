"""
C16 demo 2.

make() returns a (weakly referenceable) sequence.  Its only consumer is the
internal unpack call created by Plan.unpack.  Once that call has finished, the
sequence returned by make() must not be referenced by uberjob any more - the
items live on in the tuple that unpack produced.  One of the two item lookups
is held back with a dependency, and a call that runs in between looks whether
the sequence is still alive.
"""
import gc
import sys
import weakref

import uberjob


class Item:
    pass


class Batch(list):
    """A list that can be weakly referenced."""


refs = {}
report = {}


def make():
    batch = Batch([Item(), Item()])
    refs["batch"] = weakref.ref(batch)
    return batch


def check(item):
    gc.collect()
    report["alive"] = refs["batch"]() is not None
    return None


def main():
    for scheduler in ("default", "random"):
        for max_workers in (1, 3):
            refs.clear()
            report.clear()
            plan = uberjob.Plan()
            batch = plan.call(make)
            first, second = plan.unpack(batch, 2)
            chk = plan.call(check, second)
            # the lookup of the first item has to wait for check
            plan.add_dependency(chk, first)
            out = uberjob.run(
                plan,
                output=[first, chk],
                max_workers=max_workers,
                scheduler=scheduler,
                progress=None,
            )
            assert isinstance(out[0], Item) and out[1] is None, out
            if report.get("alive"):
                print(
                    "C16 violated: the sequence returned by make() was consumed only by "
                    "the unpack call, which has finished, but it is still alive while "
                    f"check() runs (scheduler={scheduler}, max_workers={max_workers})"
                )
                return 1
    print("ok: the unpacked sequence was released when unpack had finished")
    return 0


if __name__ == "__main__":
    sys.exit(main())
