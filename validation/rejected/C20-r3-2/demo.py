"""demo2: a console section that finishes, is shown, then receives more work and finishes again.

increment_total may be called at any time ("increment the number of entries"), so a section
that was complete (and rendered as complete) can become incomplete again and complete later.
The last console rendering must still show the final counts of that section.

Exit status 0: the last rendering shows "2 / 2".  1: it does not.
"""
import contextlib
import io
import sys
import threading
import time

from uberjob.progress._console_progress_observer import ConsoleProgressObserver

SECTION = "run"
SCOPE = ("batch", "demo.fn")


def wait_for(predicate, timeout=20.0):
    deadline = time.time() + timeout
    while time.time() < deadline:
        if predicate():
            return True
        time.sleep(0.01)
    return False


def main():
    thread_errors = []
    old_hook = threading.excepthook
    threading.excepthook = lambda args: thread_errors.append(repr(args.exc_value))
    buffer = io.StringIO()
    observer = ConsoleProgressObserver(
        initial_update_delay=0.02, min_update_interval=0.02, max_update_interval=3600
    )
    try:
        with contextlib.redirect_stdout(buffer):
            with observer:
                # first batch: one entry, run to completion, and let the display show it
                observer.increment_total(section=SECTION, scope=SCOPE, amount=1)
                observer.increment_running(section=SECTION, scope=SCOPE)
                observer.increment_completed(section=SECTION, scope=SCOPE)
                if not wait_for(lambda: "1 / 1 |" in buffer.getvalue()):
                    print("setup problem: finished first batch never rendered", file=sys.stderr)
                    return 2
                # second batch arrives in the same section and scope
                observer.increment_total(section=SECTION, scope=SCOPE, amount=1)
                observer.increment_running(section=SECTION, scope=SCOPE)
                if not wait_for(lambda: "(1 + 1) / 2 |" in buffer.getvalue()):
                    print("setup problem: second batch never rendered", file=sys.stderr)
                    return 2
                observer.increment_completed(section=SECTION, scope=SCOPE)
            # __exit__ has joined the update thread: the final rendering is out
    finally:
        threading.excepthook = old_hook

    text = buffer.getvalue()
    renderings = ["uberjob, elapsed" + part for part in text.split("uberjob, elapsed")[1:]]
    last = renderings[-1] if renderings else ""
    if thread_errors:
        print("PROPERTY VIOLATED: update thread died:", thread_errors)
        return 1
    if "2 / 2 |" not in last:
        print("PROPERTY VIOLATED (C20: last rendering reflects the final counts)")
        print("final state is run: 2 / 2 for scope", SCOPE, "but the last rendering was:")
        print("-----")
        print(last, end="")
        print("-----")
        print("all renderings:")
        print(text, end="")
        return 1
    print("ok: last console rendering shows the final counts (2 / 2)")
    return 0


if __name__ == "__main__":
    sys.exit(main())
