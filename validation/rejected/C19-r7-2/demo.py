"""
C19 demo 2 - plans that are built by methods and by nested helper functions.

Every frame of a symbolic traceback is a (name, path, line) triple, the same triple that ``inspect`` (or a
Python traceback) reports for that frame, and ``str(CallError)`` prints them as
``File "<path>", line <line>, in <name>`` with the outermost frame first.

The plan below is built by the methods of a small ``Pipeline`` class and by a closure defined inside a
builder function; the expected chains are taken with ``inspect`` on the very line that creates each call.
Exit status 0: chains and rendered messages agree with inspect.  Exit status 1: they do not (printed).
"""
import inspect
import operator
import sys

import uberjob

LIMIT = 3  # uberjob._util.traceback.MAX_TRACEBACK_DEPTH: at most LIMIT + 1 frames, then the marker


def here():
    """(name, path, line) of the caller's frame and of all frames enclosing it, innermost first."""
    frame = inspect.currentframe().f_back
    chain = []
    while frame is not None:
        chain.append((frame.f_code.co_name, frame.f_code.co_filename, frame.f_lineno))
        frame = frame.f_back
    return chain


class BrokenClock(uberjob.ValueStore):
    def read(self):
        return 1

    def write(self, value):
        raise NotImplementedError()

    def get_modified_time(self):
        raise OSError("clock is broken")


class Unwritable(uberjob.ValueStore):
    def read(self):
        raise NotImplementedError()

    def write(self, value):
        raise OSError("disk is full")

    def get_modified_time(self):
        return None


class Pipeline:
    """Builds its plan in methods, the way larger code bases organise their pipelines."""

    def __init__(self):
        self.plan = uberjob.Plan()
        self.registry = uberjob.Registry()
        self.sites = {}

    def ratio(self, a, b):
        node = self.plan.call(operator.truediv, a, b); self.sites["ratio"] = here()
        return node

    def pair(self, value):
        first, second = self.plan.unpack(value, 2); self.sites["pair"] = here()
        return first, second

    def stored(self, node):
        self.registry.add(node, Unwritable()); self.sites["stored"] = here()
        return node

    def clock(self):
        node = self.registry.source(self.plan, BrokenClock()); self.sites["clock"] = here()
        return node


def build_with_closure(plan, sites):
    def keyed(value):
        # the dictionary key only turns out to be unhashable when the plan runs
        node = plan.gather({value: 1}); sites["keyed"] = here()
        return node

    return keyed(plan.call(list))


def chain_of(call):
    out = []
    frame = call.stack_frame
    while frame is not None:
        if not hasattr(frame, "line"):
            out.append("truncated")
            break
        out.append((frame.name, frame.path, frame.line))
        frame = frame.outer
    return out


def expected_chain(site):
    if len(site) > LIMIT + 1:
        return site[: LIMIT + 1] + ["truncated"]
    return list(site)


def expected_message_tail(chain):
    lines = ["Symbolic traceback (most recent call last):"]
    for item in reversed(chain):
        if item == "truncated":
            lines.append("  ... truncated")
        else:
            name, path, line = item
            lines.append(f'  File "{path}", line {line}, in {name}')
    return "\n".join(lines)


def check(label, run, site, problems):
    try:
        run()
    except uberjob.CallError as error:
        got = chain_of(error.call)
        want = expected_chain(site)
        if got != want:
            problems.append(
                f"{label}: captured chain differs from inspect\n"
                + "".join(f"      want {item}\n" for item in want)
                + "".join(f"      got  {item}\n" for item in got)
            )
        tail = expected_message_tail(want)
        if not str(error).endswith(tail):
            problems.append(
                f"{label}: rendered message is wrong\n--- want (tail)\n{tail}\n--- got\n{error}\n"
            )
    else:
        problems.append(f"{label}: the run did not fail")


def main():
    problems = []

    # user call created by a method; fails in the run phase
    p = Pipeline()
    ratio = p.ratio(1, 0)
    check(
        "method / user call",
        lambda: uberjob.run(p.plan, output=ratio, progress=None),
        p.sites["ratio"],
        problems,
    )

    # unpack created by a method; the value has the wrong length
    p = Pipeline()
    first, _ = p.pair(p.plan.call(list))
    check(
        "method / unpack",
        lambda: uberjob.run(p.plan, output=first, progress=None),
        p.sites["pair"],
        problems,
    )

    # store write registered by a method
    p = Pipeline()
    total = p.stored(p.plan.call(operator.add, 1, 2))
    check(
        "method / registry.add write",
        lambda: uberjob.run(p.plan, registry=p.registry, output=total, progress=None),
        p.sites["stored"],
        problems,
    )

    # source created by a method; its modified time query fails in the stale check
    p = Pipeline()
    clock = p.clock()
    check(
        "method / registry.source stale check",
        lambda: uberjob.run(p.plan, registry=p.registry, output=clock, progress=None),
        p.sites["clock"],
        problems,
    )

    # gather created by a closure inside a builder function
    plan = uberjob.Plan()
    sites = {}
    keyed = build_with_closure(plan, sites)
    check(
        "closure / gather",
        lambda: uberjob.run(plan, output=keyed, progress=None),
        sites["keyed"],
        problems,
    )

    if problems:
        print("C19 VIOLATED: symbolic traceback frames do not match the frames that created the call")
        print(f"  {len(problems)} problem(s); the first ones:")
        for problem in problems[:4]:
            print("  - " + problem)
        return 1
    print("ok: frames of methods and nested helpers are reported as inspect reports them")
    return 0


if __name__ == "__main__":
    sys.exit(main())
