"""Common run_case for the history-driven registry checks (C03, C05, C09)."""
import hashlib

from vmon import history


def run_case(desc, prop, props, nontrivial_key, sample_mod=150):
    problems, stats, S, log = history.run_history(desc, props=props)
    mine = [p for p in problems if p[0] == prop]
    other = [p for p in problems if p[0] != prop]
    counters = dict(stats)
    counters["histories"] = 1
    counters["registered_nodes"] = len(S.reg)
    roles = sorted(set(S.rp.role.values()))
    res = {"status": "ok", "counters": counters, "sets": {"roles_seen": roles},
           "nontrivial": stats.get(nontrivial_key, 0) > 0,
           "sig": hashlib.sha1(("\n".join(S.describe(200)) + "|" + "|".join(l.split(" state=")[0] for l in log)).encode()).hexdigest()[:16]}
    if desc["seed"] % sample_mod == 0 or mine:
        res["sample"] = {"desc": desc, "plan": S.describe(14), "history": log[:10]}
    if mine:
        res.update(status="violation", detail=mine[0][1], mechanism=prop.lower() + "-oracle",
                   witness={"plan": S.describe(200), "history": log, "events": S.H.compact_history(600), "state": S.state_desc()})
    elif other:
        # another property's oracle fired: this history stops early; not a verdict for this property
        counters["histories_cut_short_by_other_property"] = 1
    return res
