"""C17 - Ctrl-C during a run stops new work, waits for in-flight calls and cleans up."""
import hashlib
import os
import random
import signal
import sys
import threading
import time
import traceback

from vmon import abort, env, history, ir as irmod, plainrun, quiesce, rec, recobserver, regmodel

ID = "C17"
LEVEL = "fault_enumeration"
RULE = (
    "per generated case (plain or registry plan, max_workers, scheduler, observer kind) a counted run gives the number N of "
    "call starts; then for EVERY call index k <= N (positions: at the call's start, or just before its end) a real SIGINT is "
    "sent to the thread that called run from inside call k (signal.pthread_kill). Logical protocol, no grace periods: call "
    "k closes a gate; every call entering afterwards is stamped and then blocks at the gate; a monitor waits for a "
    "*quiescent* state (all engine threads parked in untimed futex waits, context-switch counters unchanged) in which the "
    "calling thread sits in Thread.join inside the worker pool (= the interrupt has been handled: stop is set, sentinels are "
    "posted) and only then opens the gate. From that instant a single further call start is a violation. Also checked: run "
    "raises KeyboardInterrupt (nothing else, no normal return), no call is in flight when it raises, every thread created by "
    "run exits (a thread parked for ever is a violation; the deadlock detector reports a hang), the observer is exited "
    "exactly once, and for registry plans the post-interrupt store state passes C08's oracle and the next run passes the "
    "C03/C05 oracles. non-trivial = interrupt handled while at least one call was in flight and at least one call had not "
    "started; distinct by (plan, W, scheduler, k, position)"
)
ASSUMPTIONS = [
    "one interrupt per run; SIGINT is delivered with pthread_kill to the calling (main) thread, handled by CPython's default handler",
    "exhaustive: every call index of each generated case; cases are sampled",
]
WATCHDOG = {"quick": 240.0, "thorough": 900.0}


def gen_cases(tier, seed):
    n = 64 if tier == "quick" else 1000
    # deterministic placement of the interrupt inside threading.Condition.__enter__ of the run queue's mutex (see run_enter_race)
    out = [{"seed": env.seed_for(seed, ID, tier, "enter", j), "mode": "enter_race", "W": w, "sched": sc, "where": wh}
           for j, (w, sc, wh) in enumerate([(2, "default", "join"), (1, "random", "join")] + ([(4, "random", "join"), (2, "default", "join")] if tier != "quick" else []))]
    for i in range(n):
        s = env.seed_for(seed, ID, tier, i)
        r = random.Random(env.seed_for(s, "descriptor"))  # independent of the stream run_case derives from the same seed
        d = {"seed": s, "mode": r.choice(["plain", "plain", "registry"]), "n": r.randint(2, 14 if tier == "quick" else 30),
             "W": r.choice([1, 2, 4, 8]), "sched": r.choice(["default", "random", "random"]),
             "observer": r.choice(["none", "rec", "console", "rec", "html_failing", "swallowing_member", "rec", "html_slow"]), "tier": tier}
        if d["observer"] == "html_slow":
            # (every interrupt of such a case costs more than a second: few calls, plain plans, and only every other case keeps the slow display)
            if i % 2:
                d["observer"] = "rec"
            else:
                d.update(n=r.randint(2, 4), mode="plain", W=r.choice([1, 2, 4]))
        if d["mode"] == "plain" and r.random() < 0.4:
            # calls that raise, before or after the interrupt: KeyboardInterrupt must still be what run raises, and nothing may hang
            d["faults"] = {"p": r.choice([0.15, 0.3, 0.6]), "kinds": r.choice([["exc"], ["exc", "value"], ["exc", "base"]])}
            d["max_errors"] = r.choice([0, 0, 1, 3, None])
        out.append(d)
    for i in range(max(6, n // 8)):
        # a WIDE plan (dozens of independent calls, few workers): the interrupt finds most calls still queued, under either scheduler
        s = env.seed_for(seed, ID, tier, "wide", i)
        r = random.Random(env.seed_for(s, "descriptor"))
        out.append({"seed": s, "mode": "plain", "wide": True, "n": r.randint(20, 40), "W": r.choice([1, 2, 2, 4]), "sched": ["random", "default"][i % 2],
                    "observer": r.choice(["none", "rec", "console"]), "tier": tier})
    for i in range(n // 2):
        # the calls in flight when the interrupt arrives FAIL afterwards, within the error budget, with other calls still queued and the
        # random scheduler (sentinels are not prioritised there): the failure handling must not undo the stop
        s = env.seed_for(seed, ID, tier, "fail_inflight", i)
        r = random.Random(env.seed_for(s, "descriptor"))
        out.append({"seed": s, "mode": "plain", "n": r.randint(4, 14), "W": r.choice([1, 1, 2, 3]), "sched": r.choice(["random", "random", "default"]),
                    "observer": r.choice(["none", "rec"]), "tier": tier, "faults": {"p": r.choice([0.5, 0.8, 1.0]), "kinds": r.choice([["exc"], ["exc", "value"]])},
                    "max_errors": r.choice([None, None, 50])})
    return out


def main_in_pool_join():
    """Is the calling (main) thread inside Thread.join called from worker_pool?"""
    fr = sys._current_frames().get(threading.main_thread().ident)
    names = []
    while fr is not None:
        names.append((fr.f_code.co_name, os.path.basename(fr.f_code.co_filename)))
        fr = fr.f_back
    in_join = any(n == "join" and f == "threading.py" for n, f in names[:4])
    in_pool = any(f == "run_function_on_graph.py" for n, f in names)
    in_queue_join = any(n == "join" and f == "queue.py" for n, f in names[:4])
    return in_join and in_pool, in_queue_join, names[:6]


class RaiseSite:
    """Where was the KeyboardInterrupt first raised in the calling thread? (sys.monitoring RAISE event.) The open known finding D6 is
    keyed by this call site - threading.Condition.__enter__ entered from queue.py - and not merely by the shape of the resulting hang."""

    TOOL = 2

    def __init__(self):
        self.site = None
        self.unwound_uberjob = False  # the KeyboardInterrupt left at least one frame of uberjob's own code: it WAS delivered to the run
        self.main = threading.main_thread().ident

    def _unwind(self, code, offset, exc):
        if not self.unwound_uberjob and isinstance(exc, KeyboardInterrupt) and threading.get_ident() == self.main \
                and "/uberjob/" in code.co_filename.replace("\\", "/"):
            self.unwound_uberjob = True

    def _cb(self, code, offset, exc):
        if self.site is None and isinstance(exc, KeyboardInterrupt) and threading.get_ident() == self.main:
            caller = None
            try:
                fr = sys._getframe(1)
                while fr is not None and fr.f_code is not code:
                    fr = fr.f_back
                if fr is not None and fr.f_back is not None:
                    caller = (fr.f_back.f_code.co_name, os.path.basename(fr.f_back.f_code.co_filename))
            except Exception:
                pass
            self.site = (code.co_name, os.path.basename(code.co_filename), caller)

    def __enter__(self):
        m = sys.monitoring
        try:
            m.use_tool_id(self.TOOL, "vmon-raise-site")
            m.register_callback(self.TOOL, m.events.RAISE, self._cb)
            # "delivered to uberjob": the exception left a frame of uberjob's code, was thrown into one (a generator-based context manager), or reached
            # an exception handler / with-statement clean-up inside one
            for ev_ in (m.events.PY_UNWIND, m.events.PY_THROW, m.events.EXCEPTION_HANDLED):
                m.register_callback(self.TOOL, ev_, self._unwind)
            m.set_events(self.TOOL, m.events.RAISE | m.events.PY_UNWIND | m.events.PY_THROW | m.events.EXCEPTION_HANDLED)
            self.on = True
        except ValueError:
            self.on = False
        return self

    def __exit__(self, *a):
        if self.on:
            m = sys.monitoring
            m.set_events(self.TOOL, 0)
            m.register_callback(self.TOOL, m.events.RAISE, None)
            for ev_ in (m.events.PY_UNWIND, m.events.PY_THROW, m.events.EXCEPTION_HANDLED):
                m.register_callback(self.TOOL, ev_, None)
            m.free_tool_id(self.TOOL)
        return False

    def in_condition_enter_of_queue(self):
        s_ = self.site
        return bool(s_ and s_[0] == "__enter__" and s_[1] == "threading.py" and s_[2] and s_[2][1] == "queue.py")


class Interrupter:
    """Per-run state machine: open -> (call k) closed+signal sent -> (quiescent & main joined) reopened."""

    def __init__(self, H, k, position, seed):
        self.H = H
        self.k = k
        self.position = position
        self.count = 0
        self.sent_seq = None
        self.phase_seq = None
        self.phase_kind = None
        self.main_stack_at_phase = None
        self.lock = threading.Lock()
        self.deadlock = None
        self.drv = quiesce.WaveDriver(random.Random(seed), on_quiescent=self.on_quiescent, on_deadlock=self.on_deadlock)
        self.drv.open = True  # gate open: calls pass freely until call k
        self.drv.on_tick = self.tick
        self.steady_since = None
        self.run_raised = False
        self.want_steady = False
        self.resent = 0
        self.stuck_rounds = 0
        self.gave_up = False
        self.raise_site = None

    def tick(self):
        # 'steady' position: the signal is sent at the first quiescent state with the caller inside queue.join. An engine whose caller
        # polls (timed waits) never becomes quiescent in that sense - then the signal is sent after a bounded wait instead; the
        # position only shapes the schedule, no verdict depends on it.
        if self.want_steady and self.sent_seq is None and self.steady_since is not None and time.monotonic() - self.steady_since > 1.5:
            self.steady_fallbacks = getattr(self, "steady_fallbacks", 0) + 1
            self.send()

    def send(self):
        self.drv.open = False
        self.drv.hold = True
        self.sent_seq = self.H.seq
        signal.pthread_kill(threading.main_thread().ident, signal.SIGINT)

    def pre(self, nid, att):
        with self.lock:
            self.count += 1
            c = self.count
        if c == self.k and self.position == "start":
            self.send()
        elif c == self.k and self.position == "steady":
            # close the gate now; the monitor sends the signal once everything is quiescent (caller inside queue.join)
            self.drv.open = False
            self.drv.hold = True
            self.want_steady = True
            self.steady_since = time.monotonic()
        self.drv.gate(nid)

    def post(self, nid, att, res):
        if self.position == "end":
            with self.lock:
                hit = self.count == self.k and self.sent_seq is None
            if hit:
                self.send()

    def on_quiescent(self, drv, keys):
        if not drv.hold:
            return
        joined, in_qjoin, names = main_in_pool_join()
        if self.want_steady and self.sent_seq is None:
            if in_qjoin:
                self.send()
            return
        delivered = bool(self.raise_site is not None and self.raise_site.unwound_uberjob)
        if in_qjoin and self.sent_seq is not None and self.resent < 3 and not delivered:
            # The process is quiescent, the signal was delivered, and the caller is parked in queue.join again: CPython
            # raised the KeyboardInterrupt inside a weakref callback / __del__ and dropped it ("Exception ignored in ...").
            # That is the interpreter's doing, not uberjob's; a user would press Ctrl-C again. (Only then: once the KeyboardInterrupt has unwound a frame
            # of uberjob's own code it was delivered, and a caller that parks in a queue.join AFTERWARDS is judged like any other parked caller.)
            self.resent += 1
            signal.pthread_kill(threading.main_thread().ident, signal.SIGINT)
            return
        if self.sent_seq is not None and not joined:
            # quiescent, signal delivered, but the caller is parked neither in the pool's join nor (resendably) in queue.join.
            # Nothing changes while the gate stays closed; after a bounded number of identical observations open it and let
            # the ordinary monitors decide (a deadlock is then reported with every thread's stack).
            self.stuck_rounds += 1
            if self.stuck_rounds >= 30:
                with self.H.lock:
                    self.phase_seq = self.H.seq
                self.phase_kind = "caller parked outside the pool join: " + "<".join(n for n, f in names[:4])
                self.main_stack_at_phase = names
                self.gave_up = True
                drv.hold = False
                drv.release_all()
            return
        if joined:
            with self.H.lock:
                self.phase_seq = self.H.seq
            self.phase_kind = "main thread in Thread.join inside the worker pool"
            self.main_stack_at_phase = names
            drv.hold = False
            drv.release_all()

    def on_deadlock(self, stacks):
        self.deadlock = stacks
        H = self.H
        starts_after = [e for e in H.events if e[1] == "start" and self.phase_seq is not None and e[0] > self.phase_seq]
        main_stack = " ".join(stacks.get("MainThread", []))
        mech = "hang-after-interrupt" if self.phase_seq is not None else "hang"
        rs = self.raise_site
        if ("shutdown" in main_stack and ":put" in main_stack and main_stack.rstrip().endswith("__enter__")
                and rs is not None and rs.in_condition_enter_of_queue()):
            # the caller is blocked acquiring the run queue's mutex inside shutdown(): it holds that mutex itself, because the
            # KeyboardInterrupt was raised inside threading.Condition.__enter__ (a Python-level wrapper, entered from queue.py) after the
            # lock was taken. Only this call site is the known finding; any other way of leaving the mutex locked is a violation.
            mech = "interrupt-left-queue-mutex-locked"
        abort.abort_with({
            "status": "violation", "mechanism": mech,
            "detail": ("after the interrupt was handled and the gate re-opened, run never finished: every engine thread is parked in an untimed wait"
                       f" (starts after the interrupt was handled: {[e[2] for e in starts_after][:6]}; KeyboardInterrupt first raised in {rs.site if rs else None})"),
            "witness": {"stacks": stacks, "history": H.compact_history(300), "k": self.k, "position": self.position,
                        "main_stack_at_phase": self.main_stack_at_phase},
            "counters": {"interrupts_sent": 1, "hangs": 1},
        })


def one_interrupt(desc, build, k, position):
    """Returns (problem text or None, mechanism, info dict)."""
    import uberjob

    ctx = build()
    H = ctx["H"]
    I = Interrupter(H, k, position, desc["seed"] ^ k)
    fail = ctx.get("fail") or {}

    def pre(nid, att):
        I.pre(nid, att)
        f = fail.get(nid)
        if f is not None:
            raise plainrun.make_exc(f[0], nid, att)

    H.pre = pre
    if ctx.get("S") is not None:
        # store operations (read, write before it takes effect) are held at the gate as well: an interrupt can arrive while a value is
        # being written, and run must wait for that operation
        opn = [0]

        def store_hook(kind, st):
            if kind in ("rd", "wr_before"):
                opn[0] += 1
                I.drv.gate(("store", kind, st.name, opn[0]))

        H.store_hook = store_hook
    H.post_extra = None
    old_post = H.post

    def post(nid, att, res):
        if old_post is not None:
            old_post(nid, att, res)
        I.post(nid, att, res)

    H.post = post
    obs = None
    progress = None
    if desc["observer"] == "rec":
        obs = recobserver.RecObserver()
        progress = obs.progress()
    elif desc["observer"] == "console":
        import uberjob.progress as up

        progress = up.Progress(lambda: up.ConsoleProgressObserver(initial_update_delay=0.02, min_update_interval=0.05, max_update_interval=0.1))
    elif desc["observer"] == "swallowing_member":
        # a composite in which one user-written member's __exit__ returns True: a member of a composite cannot make the interrupt vanish
        class Swallow(recobserver.RecObserver):
            def __exit__(self_, *a):
                recobserver.RecObserver.__exit__(self_, *a)
                return True

        obs = recobserver.RecObserver()
        progress = (obs.progress(), Swallow("swallow").progress())
    elif desc["observer"] == "html_failing":
        import uberjob.progress as up

        def failing_output(b):
            raise OSError(28, "No space left on device")

        class CountingEvent(threading.Event):
            """the display's stop event. Once it is set, a correct update loop sees it at its next wait and ends; a loop that keeps coming back
            (bounded: 25 more waits) never lets the observer's __exit__ - and with it run - return. The thread is busy, so kernel-state sampling
            cannot see this livelock."""

            def __init__(self):
                super().__init__()
                self.after_set = 0

            def wait(self, timeout=None):
                r_ = super().wait(timeout)
                if r_:
                    self.after_set += 1
                    if self.after_set == 25:
                        from vmon import abort

                        abort.abort_with({"status": "violation", "mechanism": "hang",
                                          "detail": "[interrupt with a display whose output fails] the display's update thread came back to its stop event 25 times "
                                                    "after the event was set: the progress observer is never exited and run never returns",
                                          "witness": {"desc": desc}, "counters": {"livelocks": 1}})
                return r_

        def make_obs():
            o = up.HtmlProgressObserver(failing_output, initial_update_delay=0.001, min_update_interval=0.002, max_update_interval=0.01)
            if isinstance(getattr(o, "_done_event", None), threading.Event):
                o._done_event = CountingEvent()
            return o

        # a display whose output fails: its trouble must not replace the KeyboardInterrupt
        progress = up.Progress(make_obs)
    elif desc["observer"] == "html_slow":
        import uberjob.progress as up

        def slow_output(b):
            # a display whose output becomes slow (a page written over a congested link): fast until the interrupt is sent, 1.3 s afterwards
            if I.sent_seq is not None:
                time.sleep(1.3)

        progress = up.Progress(lambda: up.HtmlProgressObserver(slow_output, initial_update_delay=0.001, min_update_interval=0.002, max_update_interval=0.01))
    before = rec.thread_census()
    result = exc = None
    returned = False
    in_flight_at_raise = None
    I.drv.start()
    surfaced_outside = False
    RS = RaiseSite()
    I.raise_site = RS
    try:
        try:
            with RS:
                result = ctx["run"](progress)
            returned = True
        except BaseException as e:
            exc = e
        in_flight_at_raise = H.in_flight
        seq_at_raise = H.seq
        if not isinstance(exc, KeyboardInterrupt):
            for _ in range(20):  # a pending interrupt surfaces at the next bytecode boundary of this (the calling) thread
                time.sleep(0.0005)
    except KeyboardInterrupt as e:  # interrupt handled in harness code after run had returned / raised something else
        surfaced_outside = True
        in_flight_at_raise = H.in_flight
        seq_at_raise = H.seq
    finally:
        try:
            I.drv.run_done = True
            I.drv.stop()
        except KeyboardInterrupt:
            I.drv.run_done = True
            I.drv.stop()
    info = {"raise_site": RS.site, "k": k, "position": position, "phase": I.phase_kind, "resent": I.resent, "sent": I.sent_seq is not None, "exc": type(exc).__name__ if exc else None}
    if I.sent_seq is None:
        return None, None, dict(info, note="call index never reached"), ctx
    # ---- verdicts
    late_starts = []
    ref_seq = I.phase_seq if I.phase_seq is not None else seq_at_raise
    # threads
    leaked = rec.new_threads(before)
    leaked = [t for t in leaked if t is not I.drv.thread]
    never_exit = []
    if leaked:
        deadline = time.monotonic() + 20
        while time.monotonic() < deadline and any(t.is_alive() or t.ident is None for t in leaked):
            alive = [t for t in leaked if t.is_alive()]
            # logically parked for ever? (two identical samples of untimed futex waits)
            s1 = [quiesce.probe(t.native_id) for t in alive if t.native_id]
            time.sleep(0.05)
            s2 = [quiesce.probe(t.native_id) for t in alive if t.native_id]
            if alive and len(s1) == len(alive) and s1 == s2 and all(ok for ok, _ in s1):
                never_exit = [t.name for t in alive]
                break
            if not alive:
                break
    late_starts = [e for e in H.events if e[1] == "start" and e[0] > ref_seq]
    bad = mech = None
    handled_in_run = isinstance(exc, KeyboardInterrupt) and not returned
    if not isinstance(exc, KeyboardInterrupt):
        in_ctx = False
        e_ = exc
        for _ in range(8):
            if e_ is None:
                break
            if isinstance(e_, KeyboardInterrupt) or isinstance(e_.__context__, KeyboardInterrupt):
                in_ctx = True
                break
            e_ = e_.__context__ or e_.__cause__
        if surfaced_outside and I.phase_seq is None and not in_ctx:
            # run completed (returned, or raised the CallError of a failed call) before the interrupt could be handled inside it
            info["note"] = "run finished before the interrupt was handled"
            return None, None, info, ctx
        if I.phase_seq is None and not in_ctx and not surfaced_outside:
            # neither raised inside run nor afterwards: the interpreter dropped it (see interrupts_dropped_by_interpreter) and the run ended
            info["note"] = "run finished before the interrupt was handled"
            info["lost"] = True
            return None, None, info, ctx
        # otherwise the interrupt WAS handled inside run (the caller was seen in the pool's join after the signal, or the
        # KeyboardInterrupt is in the context chain of what run raised): run must raise KeyboardInterrupt - decided below
    if late_starts:
        mech = "start-after-interrupt"
        bad = (f"call(s) {[e[2] for e in late_starts][:6]} started after the interrupt had been handled "
               f"({I.phase_kind or 'run had already raised'}; seq {ref_seq})")
    elif not isinstance(exc, KeyboardInterrupt):
        mech = "wrong-exception"
        bad = f"run raised {exc!r} instead of KeyboardInterrupt" if exc is not None else "run returned normally although it was interrupted"
    elif in_flight_at_raise:
        mech = "in-flight-at-raise"
        bad = f"{in_flight_at_raise} call(s) still executing when run raised KeyboardInterrupt"
    elif never_exit:
        mech = "thread-never-exits"
        bad = f"thread(s) created by run never exit after the interrupt: {never_exit}"
    elif leaked:
        mech = "thread-alive-at-raise"
        bad = f"thread(s) created by run were still alive when it raised KeyboardInterrupt: {[t.name for t in leaked]} (they went on and exited later)"
    elif obs is not None:
        kinds = [t[2] for t in obs.trace]
        if kinds.count("exit") != 1:
            mech = "observer-exit"
            bad = f"progress observer __exit__ called {kinds.count('exit')} times after an interrupt"
        elif kinds[-1] != "exit":
            # notifications after exit can only come from calls finishing late
            mech = "observer-exit"
            bad = f"observer received {kinds[-1]!r} after __exit__"
    info.update(late_exit_threads=len(leaked), in_flight_at_phase=None, main_stack=I.main_stack_at_phase)
    if bad and I.phase_seq is None and mech in ("start-after-interrupt",) :
        pass
    # where was the calling thread when it handled the interrupt? (classifier input)
    info["handled_during_pool_startup"] = bool(exc is not None and _tb_in(exc, "worker_pool") and not _tb_in(exc, "join", "queue.py"))
    return bad, mech, info, ctx


def _tb_in(exc, fname, file=None):
    tb = exc.__traceback__
    while tb is not None:
        c = tb.tb_frame.f_code
        if c.co_name == fname and (file is None or os.path.basename(c.co_filename) == file):
            return True
        tb = tb.tb_next
    return False


def run_enter_race(desc):
    """The interrupt surfaces inside threading.Condition.__enter__ (a Python-level wrapper around the queue's mutex) right
    after the lock was acquired, as the caller enters queue.join(): CPython checks for pending signals after the C call
    `self._lock.__enter__()` returns. A trace function raises the KeyboardInterrupt at exactly that point (main thread only)."""
    import time as _t

    import uberjob

    fired = []

    def tracer(frame, event, arg):
        code = frame.f_code
        if event == "call" and code.co_name == "__enter__" and code.co_filename.endswith("threading.py") and not fired:
            caller = frame.f_back
            if caller is not None and caller.f_code.co_name == desc["where"] and caller.f_code.co_filename.endswith("queue.py"):
                def local(frame, event, arg):
                    if event == "return" and not fired:
                        fired.append(1)
                        raise KeyboardInterrupt
                    return local
                return local
        return None

    def slow():
        _t.sleep(0.05)
        return 1

    plan = uberjob.Plan()
    out = [plan.call(slow) for _ in range(4)]

    def on_deadlock(stacks):
        main_stack = " ".join(stacks.get("MainThread", []))
        mech = "hang-after-interrupt"
        if "shutdown" in main_stack and ":put" in main_stack and main_stack.rstrip().endswith("__enter__"):
            mech = "interrupt-left-queue-mutex-locked"
        abort.abort_with({"status": "violation", "mechanism": mech,
                          "detail": "KeyboardInterrupt raised inside threading.Condition.__enter__ of the run queue's mutex (after the lock was "
                                    "taken, before the with-block was entered) while the caller entered queue.join(): run never returns - "
                                    "the caller blocks in shutdown() -> queue.put() on the mutex it still holds",
                          "witness": {"stacks": stacks, "desc": desc}, "counters": {"enter_race_cases": 1, "hangs": 1}})

    drv = quiesce.WaveDriver(random.Random(0), on_deadlock=on_deadlock, period=0.002)
    drv.start()
    exc = None
    sys.settrace(tracer)
    try:
        try:
            uberjob.run(plan, output=out, max_workers=desc["W"], scheduler=desc["sched"], progress=None)
        except BaseException as e:
            exc = e
    finally:
        sys.settrace(None)
        drv.run_done = True
        drv.stop()
    res = {"status": "ok", "counters": {"enter_race_cases": 1, "enter_race_interrupt_placed": len(fired)}, "nontrivial": bool(fired),
           "sig": f"enter_race|{desc['W']}|{desc['sched']}"}
    if fired and not isinstance(exc, KeyboardInterrupt):
        res.update(status="violation", mechanism="wrong-exception", detail=f"interrupt inside Condition.__enter__: run ended with {exc!r}")
    return res


def run_case(desc):
    import uberjob

    if not quiesce.available():
        return {"status": "inconclusive", "detail": "quiescence detector unavailable"}
    if signal.getsignal(signal.SIGINT) is not signal.default_int_handler:
        # a check started from a background job inherits SIGINT = ignored; Ctrl-C semantics need CPython's default handler
        signal.signal(signal.SIGINT, signal.default_int_handler)
    if desc["mode"] == "enter_race":
        return run_enter_race(desc)
    seed = desc["seed"]
    rng = random.Random(seed)

    if desc["mode"] == "plain":
        def build():
            if desc.get("wide"):
                # many calls that are ready from the start: whenever the interrupt comes, most of them are still QUEUED
                ir = irmod.IR()
                cs_ = [ir.add("call", fname=f"f{i_ % 5}") for i_ in range(desc["n"])]
                ir.output = irmod.X("list", [irmod.ref(c_.id) for c_ in cs_])
                ir.meta["family"] = "independent"
            else:
                ir = irmod.gen_ir(random.Random(seed), desc["n"], rich=True, cfg={"out": "all", "p_unpack": 0.05})
            H = rec.Harness(ir, record_args=False)
            plan = uberjob.Plan()
            out = irmod.build(ir, plan, H.make_fn)

            fail = plainrun.choose_failing(ir, desc)
            kw = {"max_errors": desc["max_errors"]} if "max_errors" in desc else {}

            def run(progress):
                random.seed(seed & 0xFFFF)
                return uberjob.run(plan, output=out, max_workers=desc["W"], scheduler=desc["sched"], progress=progress, **kw)
            return {"H": H, "run": run, "ir": ir, "describe": ir.describe, "fail": fail}
    else:
        def build():
            rp = regmodel.gen_regplan(random.Random(seed), desc["n"])
            S = regmodel.Session(rp, seed)
            out_ids = history.choose_out(random.Random(seed ^ 3), S, "sinks")

            def run(progress):
                S.H.events.clear()
                random.seed(seed & 0xFFFF)
                return uberjob.run(S.plan, output=S.out_spec(out_ids), registry=S.registry, max_workers=desc["W"], scheduler=desc["sched"], progress=progress)
            return {"H": S.H, "run": run, "ir": S.ir, "S": S, "out_ids": out_ids, "describe": S.describe}

    # counted run (no interrupt)
    ctx = build()
    H = ctx["H"]
    if ctx.get("fail"):
        fail0 = ctx["fail"]

        def pre0(nid, att):
            f = fail0.get(nid)
            if f is not None:
                raise plainrun.make_exc(f[0], nid, att)
        H.pre = pre0
    try:
        ctx["run"](None)
    except BaseException as e:
        if not (ctx.get("fail") and type(e).__name__ == "CallError"):
            return {"status": "inconclusive", "detail": f"counted run raised {e!r}"}
    N = sum(1 for e in H.events if e[1] == "start")
    counters = {"cases": 1, "call_indices_N": N, "interrupts_sent": 0, "interrupts_handled_in_run": 0, "phase_observed": 0,
                "finished_before_handling": 0, "repair_runs": 0, "handled_with_calls_in_flight_and_pending": 0,
                "late_exit_threads": 0, "handled_during_pool_startup": 0}
    bad = mech = None
    witness = None
    sample = None
    sites = set()
    positions = [("start", k) for k in range(1, N + 1)] + [("steady", k) for k in range(1, N + 1)] + [("end", k) for k in range(1, N + 1)]
    if desc.get("tier") == "quick" and len(positions) > 24:
        keep = {("start", 1), ("steady", 1), ("start", 2), ("steady", N), ("start", N), ("end", 1), ("end", N)}
        rest = [p for p in positions if p not in keep]
        positions = sorted(keep | set(rng.sample(rest, 17)), key=lambda p: (p[1], p[0]))
    for position, k in positions:
        b, m, info, ctx = one_interrupt(desc, build, k, position)
        if not info.get("sent"):
            continue
        counters["interrupts_sent"] += 1
        if info.get("note") == "run finished before the interrupt was handled":
            counters["finished_before_handling"] += 1
        else:
            counters["interrupts_handled_in_run"] += 1
        if info.get("phase"):
            counters["phase_observed"] += 1
        counters["late_exit_threads"] += info.get("late_exit_threads") or 0
        counters["interrupts_dropped_by_interpreter_and_resent"] = counters.get("interrupts_dropped_by_interpreter_and_resent", 0) + (info.get("resent") or 0)
        counters["handled_during_pool_startup"] += int(bool(info.get("handled_during_pool_startup")))
        if info.get("raise_site"):
            sites.add("%s:%s<-%s" % (info["raise_site"][0], info["raise_site"][1], ":".join(info["raise_site"][2] or ("?",))))
        H = ctx["H"]
        started = {e[2] for e in H.events if e[1] == "start"}
        if info.get("phase") and len(started) < N:
            counters["handled_with_calls_in_flight_and_pending"] += 1
        if b is None and desc["mode"] == "registry" and info.get("exc") == "KeyboardInterrupt":
            S = ctx["S"]
            H.pre = None
            H.post = S.H.post if False else None
            # restore the producer side-write hook
            H.post = S.side_post
            d = S.check_fresh_values(None)
            if d:
                b, m = f"store state after the interrupt: {d}", "post-interrupt-state"
            else:
                exp = S.expect(ctx["out_ids"], None)
                res2, exc2 = S.run(ctx["out_ids"], W=2)
                counters["repair_runs"] += 1
                if exc2 is not None:
                    b, m = f"run after the interrupted one raised {exc2!r}", "post-interrupt-state"
                else:
                    d = S.check_counts(exp) or S.check_values(res2, ctx["out_ids"])
                    if d:
                        b, m = f"run after the interrupted one: {d}", "post-interrupt-state"
        if sample is None and info.get("phase"):
            sample = {"desc": desc, "N": N, "interrupt": info, "plan": ctx["describe"](8)}
        if b:
            if m == "start-after-interrupt" and info.get("handled_during_pool_startup"):
                m = "interrupt-during-pool-startup"
            bad, mech = f"[SIGINT at {position} of call #{k} of {N}, W={desc['W']}, {desc['sched']}] {b}", m
            witness = {"plan": ctx["describe"](100), "history": H.compact_history(400), "interrupt": info}
            break
    res = {"status": "ok", "counters": counters, "sets": {"keyboardinterrupt_first_raised_in": sorted(sites)}, "nontrivial": counters["handled_with_calls_in_flight_and_pending"] > 0,
           "sig": hashlib.sha1(("\n".join(ctx["describe"](100)) + f"|{desc['W']}|{desc['sched']}|{desc['mode']}").encode()).hexdigest()[:16]}
    if sample and (seed % 6 == 0):
        res["sample"] = sample
    if bad:
        res.update(status="violation", detail=bad, mechanism=mech, witness=witness, sample=sample, taint=True)
    return res


def finalize(agg, tier):
    c = agg.counters
    reasons = []
    if c["phase_observed"] < 100:
        reasons.append(f"the 'interrupt handled' phase was observed only {c['phase_observed']} times")
    if c["handled_with_calls_in_flight_and_pending"] < 50:
        reasons.append("fewer than 50 interrupts were handled while calls were in flight and others pending")
    return reasons


def coverage_extra(agg, tier):
    return {"exhaustive": False, "exhaustive_per_case": tier == "thorough",
            "explanation": "thorough: every call index (start and end position) of each generated case; quick: first/last indices plus a seeded sample of the others"}
