"""C02 - run returns exactly what direct evaluation of the call graph would return."""
import hashlib
import random

from vmon import env, ir as irmod, perturb as pert, preempt, rec

ID = "C02"
LEVEL = "exploration"
RULE = (
    "cases = seeded random expression graphs (nested exact list/tuple/set/dict incl. nodes as dict keys and colliding "
    "keys, node-free containers, container subclasses/namedtuples/frozensets carrying nodes, > 10 positionals, keyword "
    "names whose lexical order differs from the given order, unpack of lists/tuples/generators, explicit gather, every "
    "output shape), each run under several (max_workers, scheduler, perturbation) configurations; oracle = reference "
    "interpreter over the same IR + per-call argument records (order, names, identity of node-free arguments, exact "
    "container types); non-trivial = plan has a node-bearing container AND a node-free argument; distinct by plan structure"
)
ASSUMPTIONS = [
    "the reference interpreter mirrors the documented rule: only exact list/tuple/set/dict are navigated; a container "
    "is rebuilt only if it contains a node",
    "call functions are deterministic functions of (node id, canonical form of the received arguments)",
]

CONFIGS_Q = [(1, "default", "none"), (2, "random", "instr"), (8, "default", "instr"), (4, "random", "none")]
CONFIGS_T = CONFIGS_Q + [(1, "random", "none"), (3, "default", "line"), (16, "random", "instr"), (2, "default", "instr")]


def gen_cases(tier, seed):
    n = 1200 if tier == "quick" else 6000
    maxcalls = 25 if tier == "quick" else 60
    out = []
    for i in range(n):
        s = env.seed_for(seed, ID, tier, i)
        r = random.Random(env.seed_for(s, "descriptor"))  # independent of the stream run_case derives from the same seed
        out.append({"seed": s, "n": r.randint(1, maxcalls), "tier": tier, "break_unpack": r.random() < 0.08,
                    "cfg": {"p_cont": 0.4, "p_opq": 0.2, "p_unpack": 0.2, "p_kw": 0.3}})
    for i in range(n // 20):
        out.append({"seed": env.seed_for(seed, ID, tier, "wrapped", i), "mode": "wrapped"})
    for i in range(n // 20):
        out.append({"seed": env.seed_for(seed, ID, tier, "mutated", i), "mode": "mutated"})
    for i in range(max(16, n // 60)):
        # unpack and generator results at the edges: surplus / missing items of every kind of value (None, 0, False, "", containers), generator-valued calls
        # under every retry setting (the consumer and run's caller get the generator object the call returned, as without retry)
        s = env.seed_for(seed, ID, tier, "unpack_edges", i)
        r = random.Random(env.seed_for(s, "descriptor"))
        out.append({"seed": s, "mode": "unpack_edges", "W": r.choice([1, 2, 4]), "sched": r.choice(["default", "random"]), "retry": [None, 1, 2, 3, "custom"][i % 5]})
    for i in range(n // 12):
        # direct evaluation RAISES (a needed call raises, Exception or not): run must not return a value; an unneeded failing call changes nothing
        s = env.seed_for(seed, ID, tier, "raising", i)
        r = random.Random(env.seed_for(s, "descriptor"))
        out.append({"seed": s, "mode": "raising", "n": r.randint(2, maxcalls), "W": r.choice([1, 2, 2, 4, 8]), "sched": r.choice(["default", "random"]),
                    "perturb": r.choice(["none", "instr"]), "max_errors": r.choice([0, 0, None, 2]),
                    "faults": {"count": r.choice([1, 1, 2]), "kinds": r.choice([["exc", "value"], ["base", "sysexit", "genexit", "kbi", "cancel", "falsybase"], ["falsy", "callerr", "base"]])},
                    "cfg": {"out": r.choice(["all", "sinks", "struct", "node"])}})
    for i in range(3 if tier == "quick" else 12):
        out.append({"seed": env.seed_for(seed, ID, tier, "longchain", i), "mode": "longchain", "len": [1100, 1500, 2500][i % 3], "W": [1, 2, 8][i % 3], "sched": ["default", "random"][i % 2]})
    out.extend(preempt.gen_descs(tier, seed, ID))  # "the same for every ... timing": deterministic single-preemption enumeration
    out.extend(preempt.gen_descs2(tier, seed, ID, pairs_quick=60))  # and (k1, k2) pairs of two preemptions
    return out


def preempt_oracle(R, ir):
    if R.exc is not None:
        return f"run raised {R.exc!r} (cause {R.exc.__cause__!r}) but direct evaluation succeeds"
    want, _ = irmod.evaluate(ir)
    if not irmod.struct_eq(R.result, want):
        return f"run returned {irmod.canon(R.result)[:200]}; direct evaluation gives {irmod.canon(want)[:200]}"
    return None


def run_unpack_edges(desc):
    import types

    import uberjob

    rng = random.Random(desc["seed"])
    retry = desc["retry"]
    if retry == "custom":
        def retry(f):
            def g(*a, **k):
                return f(*a, **k)
            return g
    kw = dict(max_workers=desc["W"], scheduler=desc["sched"], progress=None, retry=retry)
    bad = None
    checked = 0
    # (1) unpack(length) of iterables with exactly / fewer / more items, the surplus or missing item being any kind of value
    odd = [None, 0, False, "", (), [], 0.0, b"", {}, 7, "x"]
    for _ in range(12):
        length = rng.randint(1, 3)  # (with length 0 nothing depends on the unpack call: it is not part of the run)
        actual = rng.choice([length, length, length + 1, length + 2, length - 1])
        items = [rng.choice(odd) for _ in range(actual)]
        form = rng.choice(["list", "tuple", "generator", "iterator"])
        if actual != length and form in ("generator", "iterator") and desc["retry"] not in (None, 1):
            # a second attempt would see what the first attempt left of a one-shot iterable - a different input, not this property's business (DESIGN section 5)
            form = rng.choice(["list", "tuple"])

        def produce(items=items, form=form):
            if form == "list":
                return list(items)
            if form == "tuple":
                return tuple(items)
            if form == "generator":
                return (x for x in items)
            return iter(list(items))

        plan = uberjob.Plan()
        u = plan.unpack(plan.call(produce), length)
        exc = res = None
        try:
            res = uberjob.run(plan, output=list(u), **kw)
        except BaseException as e:  # noqa
            exc = e
        checked += 1
        if actual == length:
            if exc is not None:
                bad = f"unpack({length}) of a {form} with exactly {length} items {items!r} raised {exc!r:.120}"
            elif len(res) != length or any(a is not b and a != b for a, b in zip(res, items)):
                bad = f"unpack({length}) of {form} {items!r} gave {res!r}"
        elif exc is None:
            bad = (f"unpack({length}) of a {form} that yields {actual} items {items!r} returned {res!r}: unpacking a, b = iterable raises ValueError when the "
                   f"iterable has {'more' if actual > length else 'fewer'} items, whatever those items are")
        elif not isinstance(exc, uberjob.CallError) or not isinstance(exc.__cause__, ValueError):
            bad = f"unpack({length}) of a {form} with {actual} items raised {exc!r:.100} (cause {exc.__cause__!r:.80}), expected CallError from ValueError"
        if bad:
            break
    # (2) a generator-valued call: its consumer, and the caller of run, receive the generator object itself
    if bad is None:
        def gen():
            yield 1
            yield 2

        def kind(x):
            return type(x).__name__, list(x)

        plan = uberjob.Plan()
        g = plan.call(gen)
        k = plan.call(kind, g)
        g2 = plan.call(gen)
        try:
            rk, rg = uberjob.run(plan, output=(k, g2), **kw)
        except BaseException as e:  # noqa
            bad = f"generator-valued calls: run raised {e!r:.120}"
        else:
            checked += 1
            if rk != ("generator", [1, 2]):
                bad = f"the consumer of a generator-valued call received a {rk[0]} holding {rk[1]!r}; the call returned a generator (as it does without retry)"
            elif not isinstance(rg, types.GeneratorType):
                bad = f"run returned a {type(rg).__name__} for an output call that returns a generator"
            elif list(rg) != [1, 2]:
                bad = "the generator run returned for an output call had already been consumed"
    res_ = {"status": "ok", "counters": {"runs": checked, "unpack_edge_runs": checked}, "sets": {"features_exercised": ["unpack_edges"]}, "nontrivial": True,
            "sig": f"unpack_edges|{desc['seed'] % 100000}|{desc['retry']}"}
    if bad:
        res_.update(status="violation", mechanism="value-mismatch", detail=f"[unpack_edges W={desc['W']} sched={desc['sched']} retry={desc['retry']}] {bad}")
    return res_


def run_raising(desc):
    from vmon import plainrun

    R = plainrun.execute(desc, record_args=False)
    ir = R.ir
    needed = ir.needed() & set(ir.harness_calls())
    failing_needed = sorted(set(R.fail) & needed)
    counters = {"runs": 1, "raising_runs": 1, "raising_runs_needed_call_raises": int(bool(failing_needed)), "raising_runs_only_unneeded_raise": int(not failing_needed)}
    bad = None
    if failing_needed:
        if R.exc is None:
            kinds = {n: R.fail[n][0] for n in failing_needed}
            bad = f"run returned {irmod.canon(R.result, ir.opaque_ids)[:120]} although needed call(s) {kinds} raise: direct evaluation raises"
    else:
        want, _ = irmod.evaluate(ir)
        if R.exc is not None:
            bad = f"run raised {R.exc!r} although only unneeded call(s) {sorted(R.fail)} would raise: direct evaluation succeeds"
        elif not irmod.struct_eq(R.result, want):
            bad = f"run returned {irmod.canon(R.result, ir.opaque_ids)[:200]}; direct evaluation gives {irmod.canon(want, ir.opaque_ids)[:200]}"
    res = {"status": "ok", "counters": counters, "sets": {"features_exercised": ["raising:" + k for k, _ in R.fail.values()]}, "nontrivial": bool(failing_needed),
           "sig": hashlib.sha1(f"raising|{desc['seed']}".encode()).hexdigest()[:16]}
    if bad:
        res.update(status="violation", mechanism="value-mismatch", witness={"plan": ir.describe(200), "failing": {str(k): v[0] for k, v in R.fail.items()}, "history": R.H.compact_history(200)},
                   detail=f"[W={desc['W']} sched={desc['sched']} perturb={desc['perturb']} max_errors={desc['max_errors']}] {bad}")
    return res


def compare_args(ir, E, nid, seen):
    n = ir.nodes[nid]
    args, kwitems = seen
    if len(args) != len(n.args):
        return f"n{nid} received {len(args)} positional arguments, expected {len(n.args)}"
    for i, (got, x) in enumerate(zip(args, n.args)):
        if not x.hasref:
            want = x.built if x.built is not None else x.a
            if got is not want:
                return f"n{nid} positional {i}: node-free argument {x.desc()} was not passed as the very object supplied (got {type(got).__name__})"
        else:
            want = E.ev(x)
            if not irmod.struct_eq(got, want):
                return f"n{nid} positional {i} ({x.desc()}): got {irmod.canon(got, ir.opaque_ids)[:200]} expected {irmod.canon(want, ir.opaque_ids)[:200]} (types {type(got).__name__}/{type(want).__name__})"
    names = [k for k, _ in kwitems]
    if names != [k for k, _ in n.kwargs]:
        return f"n{nid} keyword arguments arrived as {names}, given as {[k for k, _ in n.kwargs]}"
    for (k, got), (_, x) in zip(kwitems, n.kwargs):
        if not x.hasref:
            want = x.built if x.built is not None else x.a
            if got is not want:
                return f"n{nid} keyword {k}: node-free argument not passed by identity"
        else:
            want = E.ev(x)
            if not irmod.struct_eq(got, want):
                return f"n{nid} keyword {k}: got {irmod.canon(got, ir.opaque_ids)[:200]} expected {irmod.canon(want, ir.opaque_ids)[:200]}"
    return None


def run_longchain(desc):
    """A chain of thousands of calls, each with a single predecessor (deeper than the interpreter's recursion limit): acyclic plans of any
    depth evaluate like the loop that would compute them directly."""
    import uberjob

    plan = uberjob.Plan()
    x = plan.call(int)
    for _ in range(desc["len"]):
        x = plan.call(_inc, x)
    exc = got = None
    try:
        got = uberjob.run(plan, output=x, max_workers=desc["W"], scheduler=desc["sched"], progress=None)
    except BaseException as e:
        exc = e
    bad = None
    if exc is not None:
        bad = f"run raised {exc!r} (cause {exc.__cause__!r})"
    elif got != desc["len"]:
        bad = f"run returned {got!r}; direct evaluation gives {desc['len']}"
    res = {"status": "ok", "counters": {"runs": 1, "longchain_runs": 1}, "sets": {"features_exercised": ["longchain"]}, "nontrivial": True, "sig": f"longchain|{desc['len']}|{desc['W']}"}
    if bad:
        res.update(status="violation", mechanism="value-mismatch", detail=f"[chain of {desc['len']} single-predecessor calls, W={desc['W']}, {desc['sched']}] {bad}")
    return res


def _inc(v):
    return v + 1


def run_mutated(desc):
    """One mutable container object (holding nodes) is handed to several plan.call / gather calls and MUTATED in between (append, replaced
    entry, new key): every call is built from what the container held when the call was made - as direct evaluation line by line would see."""
    import uberjob

    rng = random.Random(desc["seed"])
    plan = uberjob.Plan()
    src = [plan.call((lambda i=i: i + 1)) for i in range(rng.randint(2, 5))]
    acc_list, acc_dict, acc_set = [], {}, set()
    nodes, want = [], []
    vals = [i + 1 for i in range(len(src))]
    for step, (n_, v_) in enumerate(zip(src, vals)):
        kind = rng.choice(["list", "dict", "nested", "list"])
        if kind == "list":
            acc_list.append(n_)
            nodes.append(plan.call(lambda xs: sum(xs), acc_list))
            want.append(sum(vals[j] for j in range(len(vals)) if src[j] in acc_list))
        elif kind == "dict":
            acc_dict["k%d" % (step % 2)] = n_  # sometimes REPLACES an entry of the same dict object
            nodes.append(plan.call(lambda d: sorted(d.items()), acc_dict))
            want.append(sorted((k, vals[src.index(x)]) for k, x in acc_dict.items()))
        else:
            acc_list.append(n_)
            outer = [acc_list, {"again": acc_list}]
            nodes.append(plan.gather(outer))
            cur = [vals[src.index(x)] for x in acc_list]
            want.append([cur, {"again": cur}])
    # ... and call functions that mutate what they RECEIVE (sort in place, pop, append, update): a structure that contains nodes - even if those
    # nodes are plain literals - is rebuilt for every evaluation, so the same plan gives the same answer every time it is run
    l3, l1, l2 = plan.lit(3), plan.lit(1), plan.lit(2)

    def take_smallest(xs):
        xs.sort()
        return xs.pop(0)

    def grow(d):
        d["n"] = d.get("n", 0) + 1
        return sorted(d.items())

    nodes.append(plan.call(take_smallest, [l3, l1, l2]))
    want.append(1)
    nodes.append(plan.call(grow, {"a": l1}))
    want.append([("a", 1), ("n", 1)])
    nodes.append(plan.call(lambda t_, xs: (t_, xs.append(9), list(xs))[2], (l1,), [(l2,), l3]))
    want.append([(2,), 3, 9])
    bad = None
    for W in (1, 3, 2):
        try:
            got = uberjob.run(plan, output=nodes, max_workers=W, progress=None)
        except BaseException as e:
            bad = f"run raised {e!r} (cause {e.__cause__!r})"
            break
        if got != want:
            bad = f"run (#{(1, 3, 2).index(W) + 1} of the same plan) returned {got!r}; line-by-line evaluation gives {want!r}"
            break
    res = {"status": "ok", "counters": {"mutated_container_cases": 1, "runs": 3}, "sets": {"features_exercised": ["mutated_containers"]}, "nontrivial": True,
           "sig": f"mutated|{desc['seed'] % 100000}"}
    if bad:
        res.update(status="violation", detail=f"[one container object reused and mutated between calls] {bad}", mechanism="value-mismatch")
    return res


def run_wrapped(desc):
    """Call functions with explicit, DIFFERENT signatures that share one decorator (functools.wraps, so they also share the wrapper's code
    object), lambdas, functools.partial objects, bound methods, classes and builtins as callables; positional and keyword arguments
    (names that coincide with names used inside the engine), with and without retry."""
    import functools

    import uberjob

    rng = random.Random(desc["seed"])

    def deco(f):
        @functools.wraps(f)
        def wrapper(*a, **k):
            return f(*a, **k)
        return wrapper

    def f1(a, b):
        return ("f1", a, b)

    def f2(x, *, k):
        return ("f2", x, k)

    def f3(a, b=5, *rest, f=None, attempts=3, **more):
        return ("f3", a, b, rest, f, attempts, tuple(more.items()))

    def f4(fn, retry, node=0):
        return ("f4", fn, retry, node)

    def f5(x=0, *, scope="default-scope", plan=None, **rest):
        return ("f5", x, scope, plan, tuple(rest.items()))

    class K:
        def __init__(self, v, exc_type=None):
            self.v = (v, exc_type)

        def m(self, p, q=2):
            return ("m", self.v, p, q)

        def __eq__(self, o):
            return type(o) is K and o.v == self.v

        __hash__ = None

    bare_ns = {}
    exec("def g(a, b=2):\n    return ('g', a, b)\n", bare_ns)

    class Nameless:
        """a callable object whose class sets __module__ / __qualname__ to None"""
        __module__ = None

        def __call__(self, x):
            return ("nameless", x)

    nameless = Nameless()

    class Const:
        def __init__(self, v):
            self.v = v

        def __call__(self):
            return (type(self.v).__name__, self.v)

        def __eq__(self, o):
            return type(o) is Const and o.v == self.v

        def __hash__(self):
            return hash(self.v)

    calls = [  # (callable, args, kwargs)
        (deco(f1), (1, 2), {}), (deco(f2), (3,), {"k": 4}), (deco(f3), (1,), {"f": 7, "attempts": 9, "zz": 1}), (deco(f3), (1, 2, 3, 4), {}),
        (deco(f4), (), {"fn": 1, "retry": 2, "node": 3}), (f4, ("a", "b"), {}), (functools.partial(f3, 10), (), {"exc_type": 1, "f": 2}),
        (K, (5,), {"exc_type": "E"}), (K(1).m, (8,), {"q": 9}), (max, (3, 9, 4), {}), (sorted, ([3, 1, 2],), {"reverse": True}), (lambda *a, **k: (a, tuple(k.items())), (1,), {"f": 2, "args": 3}),
        (dict, (), {"f": 1, "self_": 2}), (deco(f2), (0,), {"k": None}),
        # callables without a module of their own (__module__ is None): bound methods of built-in objects, functions defined by exec in a bare
        # namespace, and callables whose name attributes are unusual
        (", ".join, (["a", "b"],), {}), ({"k": 5}.get, ("k",), {}), ([1, 2, 2].count, (2,), {}), ("abc".upper, (), {}), (bare_ns["g"], (1,), {"b": 3}),
        (nameless, (4,), {}),
        # callable objects that compare EQUAL (and hash alike) but are distinct and behave differently: 1 == 1.0 == True
        (Const(1), (), {}), (Const(1.0), (), {}), (Const(True), (), {}),
        # keyword names that the library uses for its own options elsewhere
        (f5, (1,), {"scope": ("s", 1)}), (deco(f5), (), {"scope": None, "plan": 2, "output": 3, "registry": 4, "max_workers": 5}),
    ]
    rng.shuffle(calls)
    calls = calls[: rng.randint(4, len(calls))]
    plan = uberjob.Plan()
    nodes, want = [], []
    exc = None
    try:
        for fn, a, k in calls:
            a2 = tuple(nodes[rng.randrange(len(nodes))] if nodes and rng.random() < 0.2 and fn in (max,) and False else x for x in a)
            nodes.append(plan.call(fn, *a2, **k))
            want.append(fn(*a, **k))
    except BaseException as e:
        exc = e
    bad = None
    if exc is not None:
        bad = f"a legal symbolic call could not be created: {exc!r}"
    else:
        for retry in (None, 2, 3):
            try:
                got = uberjob.run(plan, output=nodes, retry=retry, max_workers=rng.choice([1, 3]), progress=None)
            except BaseException as e:
                bad = f"[retry={retry}] run raised {e!r} (cause {e.__cause__!r}) but direct evaluation succeeds"
                break
            if got != want:
                bad = f"[retry={retry}] run returned {got!r}, direct evaluation gives {want!r}"
                break
    res = {"status": "ok", "counters": {"wrapped_callable_cases": 1, "runs": 3}, "sets": {"features_exercised": ["wrapped_callables"]}, "nontrivial": True,
           "sig": f"wrapped|{desc['seed'] % 100000}"}
    if bad:
        res.update(status="violation", detail=f"[callables with explicit signatures, shared decorator, keyword names f/attempts/exc_type/fn/retry] {bad}", mechanism="value-mismatch")
    return res


def run_case(desc):
    import uberjob

    if desc.get("mode") == "wrapped":
        return run_wrapped(desc)
    if desc.get("mode") == "mutated":
        return run_mutated(desc)
    if desc.get("mode") == "unpack_edges":
        return run_unpack_edges(desc)
    if desc.get("mode") == "raising":
        return run_raising(desc)
    if desc.get("mode") == "longchain":
        return run_longchain(desc)
    if desc.get("mode") == "preempt1":
        r_ = preempt.enumerate_case(desc, preempt_oracle)
        r_.setdefault("sets", {})["features_exercised"] = ["preempt1"]
        return r_
    if desc.get("mode") == "preempt2":
        r_ = preempt.enumerate_pairs(desc, preempt_oracle)
        r_.setdefault("sets", {})["features_exercised"] = ["preempt2"]
        return r_
    seed = desc["seed"]
    rng = random.Random(seed)
    ir = irmod.gen_ir(rng, desc["n"], rich=True, cfg=desc.get("cfg"))
    broke = None
    if desc.get("break_unpack"):
        ups = [n for n in ir.nodes if n.kind == "unpack"]
        if ups:
            u = rng.choice(ups)
            delta = rng.choice([-1, 1])
            if u.length + delta >= 0:
                # wrong length: items beyond the new length are dropped from the IR by truncation
                items = [n for n in ir.nodes if n.kind == "item" and n.src == u.id]
                if delta == 1:
                    broke = u.id
                    u.length += 1  # claims one more than the producer yields; existing items keep their indices
                elif items and all(it.index < u.length - 1 for it in items if _used(ir, it.id)):
                    pass  # cannot shrink safely without re-indexing: leave as is
    H = rec.Harness(ir, record_args=True)
    plan = uberjob.Plan()
    if broke is not None:
        # an extra item node exists only on the uberjob side; IR items are unchanged
        pass
    out = irmod.build(ir, plan, H.make_fn)
    E = irmod.Evaluator(ir)
    ref_exc = None
    try:
        for i in sorted(ir.needed()):  # plain-dependency ancestors must succeed as well
            if ir.nodes[i].kind != "unpack" or ir.nodes[i].node is not None:
                E.val(i)
        ref_out = E.output()
    except irmod.RefError as e:
        ref_exc = e
    counters = {"runs": 0, "calls_argchecked": 0, "identity_checks": 0, "expected_failures_seen": 0}
    sets = {}
    configs = CONFIGS_Q if desc.get("tier") != "thorough" else CONFIGS_T
    bad = None
    for (W, sched, pmode) in configs:
        H.reset()
        random.seed(seed & 0xFFFF)
        with pert.make(seed ^ W, pmode):
            exc = None
            try:
                got = uberjob.run(plan, output=out, max_workers=W, scheduler=sched, progress=None, retry=(2 if (seed + W) % 3 == 0 else None))
            except BaseException as e:
                exc = e
        counters["runs"] += 1
        cfgs = f"W={W} sched={sched} perturb={pmode}"
        if ref_exc is not None:
            if exc is None:
                bad = f"[{cfgs}] run returned although unpack length is wrong at n{ref_exc.nid} ({ref_exc.exc})"
            elif not (isinstance(exc, uberjob.CallError) and isinstance(exc.__cause__, ValueError)):
                bad = f"[{cfgs}] wrong unpack length produced {exc!r} cause {exc.__cause__!r} instead of CallError from ValueError"
            else:
                counters["expected_failures_seen"] += 1
            if bad:
                break
            continue
        if exc is not None:
            bad = f"[{cfgs}] run raised {exc!r} (cause {exc.__cause__!r}) but direct evaluation succeeds"
            break
        if not irmod.struct_eq(got, ref_out):
            bad = f"[{cfgs}] run returned {irmod.canon(got, ir.opaque_ids)[:300]} (type {type(got).__name__}); direct evaluation gives {irmod.canon(ref_out, ir.opaque_ids)[:300]} (type {type(ref_out).__name__})"
            break
        if ir.output is not None and not ir.output.hasref and got is not (ir.output.built if ir.output.built is not None else ir.output.a):
            # node-free output: equality is what the statement requires; identity is only recorded
            counters["nodefree_output_not_identical"] = counters.get("nodefree_output_not_identical", 0) + 1
        for nid, seen in H.args_seen.items():
            counters["calls_argchecked"] += 1
            counters["identity_checks"] += sum(1 for x in ir.nodes[nid].args if not x.hasref)
            bad = compare_args(ir, E, nid, seen)
            if bad:
                bad = f"[{cfgs}] {bad}"
                break
        if bad:
            break
    has_cont = any(x.hasref and x.k != "ref" for n in ir.nodes if n.kind == "call" for x in n.args)
    has_free = any(not x.hasref for n in ir.nodes if n.kind == "call" for x in n.args)
    feats = set()
    for n in ir.nodes:
        if n.kind == "call":
            if n.kwargs:
                feats.add("kwargs")
            if len(n.args) > 10:
                feats.add("gt10_positional")
            for x in n.args:
                if x.k == "opaque":
                    feats.add("opaque:" + x.okind)
                if x.hasref and x.k != "ref":
                    feats.add("container:" + x.k)
        if n.kind in ("unpack", "gather"):
            feats.add(n.kind)
    feats.add("out:" + ("none" if ir.output is None else ir.output.k))
    sets["features_exercised"] = sorted(feats)
    res = {"status": "ok", "counters": counters, "sets": sets, "nontrivial": has_cont and has_free,
           "sig": hashlib.sha1("\n".join(ir.describe(300)).encode()).hexdigest()[:16]}
    if seed % 300 == 0 or bad:
        res["sample"] = {"plan": ir.describe(30), "reference_output": irmod.canon(ref_out, ir.opaque_ids)[:300] if ref_exc is None else repr(ref_exc)}
    if bad:
        res.update(status="violation", detail=bad, mechanism="value-mismatch", witness={"plan": ir.describe(300)})
    return res


def _used(ir, nid):
    for n in ir.nodes:
        if nid in n.nav_refs():
            return True
    return ir.output is not None and nid in ir.output.refs()


def finalize(agg, tier):
    reasons = []
    need = {"kwargs", "gt10_positional", "unpack", "gather", "container:list", "container:tuple", "container:set", "container:dict",
            "opaque:MyList", "opaque:Pair", "opaque:frozenset", "out:none", "out:const", "out:ref"}
    missing = need - agg.sets.get("features_exercised", set())
    if missing:
        reasons.append(f"features never exercised: {sorted(missing)}")
    if agg.counters["identity_checks"] < 200:
        reasons.append("fewer than 200 identity checks of node-free arguments")
    if agg.counters["expected_failures_seen"] < 1:
        reasons.append("no wrong-length unpack case was observed failing")
    return reasons
