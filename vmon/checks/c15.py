"""C15 - progress observers receive an exact, well-formed account of every run."""
import collections
import hashlib
import random

from vmon import env, history, ir as irmod, plainrun, rec, recobserver, regmodel

ID = "C15"
LEVEL = "exploration"
RULE = (
    "cases = seeded runs observed by a recording ProgressObserver: mode 'plain' (rich plans with arbitrary scopes, failing "
    "calls of Exception / BaseException kinds, max_errors, retry, W in {1..16}, yield injection in engine and observer code), "
    "mode 'registry' (store states from histories; store operations and the stale section), composite observers of 1-3 "
    "recorders (+ bundled console/html observers). oracle = trace specification (enter first, exactly one exit last, "
    "totals announced before running, per-thread and per-scope balance when calls end normally or with Exception, "
    "completed == total after success) + independent execution counters of the harness (run totals per scope == executed "
    "calls / store operations / built-in gather-unpack nodes counted from the IR; stale totals == calls in the logical "
    "plan) + equality of the sequences received by composite members. non-trivial = multi-threaded run with >= 2 scopes; "
    "distinct by (plan, mode, W, failing set, observer combination)"
)
ASSUMPTIONS = ["the recording observer stamps notifications under its own lock", "scope of a call = user scope + fully qualified function name"]

GNAME = {"list": "gather_list", "tuple": "gather_tuple", "set": "gather_set", "dict": "gather_dict"}


def gen_cases(tier, seed):
    n = 1500 if tier == "quick" else 12000
    out = []
    for i in range(n):
        s = env.seed_for(seed, ID, tier, i)
        r = random.Random(env.seed_for(s, "descriptor"))  # independent of the stream run_case derives from the same seed
        mode = r.choice(["plain", "plain", "registry"])
        ncalls = r.randint(1, 25 if tier == "quick" else 60)
        W = r.choice([1, 2, 4, 8, 16])
        d = {"seed": s, "mode": mode, "n": ncalls, "W": W, "sched": r.choice(["default", "random"]),
             "members": r.choice([1, 1, 2, 3]), "bundled": r.random() < 0.15,
             "perturb": r.choice(["instr", "line", "none"]) if W > 1 else "none",
             "cfg": {"out": r.choice(["all", "sinks", "struct", "node", "none"]), "p_scope": 0.6, "n_fnames": 3}}
        if mode == "plain":
            f = r.random()
            if f < 0.35:
                d["faults"] = {"p": r.choice([0.1, 0.4]), "kinds": ["exc", "value", "callerr", "ctorargs"]}
                d["max_errors"] = r.choice([0, 2, None])
            elif f < 0.5:
                d["faults"] = {"p": 0.2, "kinds": ["base", "kbi", "exc"]}
                d["max_errors"] = r.choice([0, None])
            elif f < 0.6:
                d["retry"] = 3
                d["faults"] = {"p": 0.3, "kinds": ["exc"], "flaky": True, "max_flaky": 2}
            elif f < 0.75:
                d["transform"] = r.choice(["copy_add", "inplace_add", "copy_same"])
        else:
            d["steps"] = r.randint(0, 5)
        out.append(d)
    for i in range(n // 20):
        out.append({"seed": env.seed_for(seed, ID, tier, "flaky_completed", i), "mode": "flaky_completed", "members": 2, "W": 1, "n": 3, "sched": "default"})
    for i in range(n // 15):
        s = env.seed_for(seed, ID, tier, "dry", i)
        r = random.Random(env.seed_for(s, "descriptor"))
        out.append({"seed": s, "mode": "dry", "n": r.randint(1, 12), "registry": r.choice(["none", "none", "empty", "full"]), "members": r.choice([1, 2]), "W": 1, "sched": "default",
                    "cfg": {"out": r.choice(["all", "sinks", "node", "none"]), "p_scope": 0.6, "n_fnames": 3}})
    for i in range(3 if tier == "quick" else 12):
        out.append({"seed": env.seed_for(seed, ID, tier, "many_callables", i), "mode": "many_callables", "members": 1, "W": 2, "n": 30, "sched": "default"})
    for i in range(n // 30):
        s = env.seed_for(seed, ID, tier, "builtin_fail", i)
        r = random.Random(env.seed_for(s, "descriptor"))
        out.append({"seed": s, "mode": "builtin_fail", "members": 1, "W": r.choice([1, 2, 4]), "n": r.randint(2, 8), "sched": "default", "retry": r.choice([None, 1, 2, 3]),
                    "max_errors": r.choice([0, None])})
    for i in range(max(20, n // 60)):
        out.append({"seed": env.seed_for(seed, ID, tier, "dup_progress", i), "mode": "dup_progress", "members": 2, "W": 1 + i % 3, "n": 4, "sched": "default"})
    for i in range(n // 25):
        s = env.seed_for(seed, ID, tier, "interrupt", i)
        r = random.Random(env.seed_for(s, "descriptor"))
        out.append({"seed": s, "mode": "interrupt", "members": r.choice([1, 1, 2]), "W": r.choice([1, 2, 2, 4, 8]), "n": r.randint(3, 14), "sched": r.choice(["default", "random"]),
                    "k": r.choice([1, 1, 2, 3, 5]), "perturb": "none", "delays": "none", "cfg": {"out": r.choice(["all", "sinks"])}})
    for i in range(n // 12):
        s = env.seed_for(seed, ID, tier, "faulty", i)
        r = random.Random(env.seed_for(s, "descriptor"))
        out.append({"seed": s, "mode": "faulty_member", "members": r.choice([2, 2, 3, 4]), "bundled": r.random() < 0.4, "compose": r.choice(["tuple", "flat", "nested"]),
                    "W": 1, "n": 2, "sched": "default"})
    return out


def count_gathers(x, scope, out):
    """Number of implicit gather calls uberjob creates for one argument expression, keyed by full scope."""
    k = x.k
    if k in ("ref", "const", "opaque") or not x.hasref:
        return
    out[(*scope, GNAME[k])] += 1
    if k == "dict":
        for kx, vx in x.a:
            if kx.hasref or vx.hasref:
                out[(*scope, "gather_tuple")] += 1
                count_gathers(kx, scope, out)
                count_gathers(vx, scope, out)
    else:
        for c in x.a:
            count_gathers(c, scope, out)


def expected_builtin_totals(ir, executed_ids):
    """Built-in nodes (gather/unpack/getitem) in the needed set, counted from the IR."""
    out = collections.Counter()
    needed = ir.needed()
    for i in needed:
        n = ir.nodes[i]
        if n.kind == "call":
            for a in n.args:
                count_gathers(a, n.scope, out)
            for _, a in n.kwargs:
                count_gathers(a, n.scope, out)
        elif n.kind == "gather":
            count_gathers(n.expr, (), out)
        elif n.kind == "unpack":
            count_gathers(n.src, (), out)
            out[("unpack",)] += 1
        elif n.kind == "item":
            out[("getitem",)] += 1
    if ir.output is not None:
        count_gathers(ir.output, (), out)
    return out


def make_progress(desc, tmpdir=None):
    import uberjob.progress as up

    def mk(i):
        k_ = (desc["seed"] + i) % 5
        if k_ == 0:
            return recobserver.make_null_based_recorder(f"rec{i}")
        if k_ == 1:
            return recobserver.FalsyRec(f"rec{i}")  # an observer object that is falsy (while it has seen no failure)
        return recobserver.RecObserver(f"rec{i}")

    recs = [mk(i) for i in range(desc.get("members", 1))]
    members = [r.progress() for r in recs]
    if desc.get("bundled"):
        # (update intervals of a few milliseconds: with yields injected at every instruction of the display code a display that re-renders every
        # half millisecond holds its lock almost all the time and sixteen workers queue up behind it - the run crawls for minutes, which says
        # nothing about uberjob)
        fast = desc.get("perturb") != "instr"
        lo, hi = (0.0005, 0.001) if fast else (0.004, 0.012)
        members.insert(1 if len(members) > 1 else 0, up.Progress(lambda: up.HtmlProgressObserver(lambda b: None, initial_update_delay=lo, min_update_interval=lo, max_update_interval=hi)))
        members.append(up.Progress(lambda: up.ConsoleProgressObserver(initial_update_delay=lo, min_update_interval=lo, max_update_interval=hi)))
    if len(members) == 1:
        return recs, members[0]
    rnd = desc["seed"] % 3
    if rnd == 0:
        return recs, tuple(members)  # run() builds the composite itself
    if rnd == 1:
        return recs, up.composite_progress(*members)
    # nested composite
    return recs, up.composite_progress(members[0], up.composite_progress(*members[1:]))


def run_builtin_fail(desc):
    """Calls whose function is implemented in C (no Python frame of their own: operator.truediv, int, len, operator.getitem) and fails on every
    attempt, with and without retry: each is reported running and then failed exactly once."""
    import operator

    import uberjob

    rng = random.Random(desc["seed"])
    recorder = recobserver.RecObserver("rec")
    plan = uberjob.Plan()
    ok = plan.call(lambda: 1)
    nodes = [ok]
    nfail = 0
    for i in range(desc["n"]):
        kind = rng.choice(["truediv", "int", "len", "getitem", "fine"])
        with plan.scope(rng.choice(["s", 2, ("t", 1)])):
            if kind == "truediv":
                nodes.append(plan.call(operator.truediv, ok, 0)); nfail += 1
            elif kind == "int":
                nodes.append(plan.call(int, "not a number")); nfail += 1
            elif kind == "len":
                nodes.append(plan.call(len, ok)); nfail += 1
            elif kind == "getitem":
                nodes.append(plan.call(operator.getitem, [1, 2], 7)); nfail += 1
            else:
                nodes.append(plan.call(operator.add, ok, 1))
    exc = None
    try:
        uberjob.run(plan, output=nodes, progress=recorder.progress(), max_workers=desc["W"], retry=desc["retry"], max_errors=desc["max_errors"])
    except BaseException as e:
        exc = e
    bad = recobserver.check_trace(recorder.trace, balanced=True, succeeded=exc is None)
    if bad is None and nfail and not isinstance(exc, uberjob.CallError):
        bad = f"{nfail} calls of C-implemented functions fail, run ended with {exc!r}"
    if bad is None and desc["max_errors"] is None:
        failed = sum(1 for t in recorder.trace if t[2] == "failed")
        if failed != nfail:
            bad = f"{nfail} failing calls (max_errors=None) but {failed} 'failed' notifications"
    res = {"status": "ok", "counters": {"builtin_fail_runs": 1, "traces_checked": 1, "traces_with_failures": int(nfail > 0)}, "nontrivial": nfail > 0,
           "sig": f"builtin_fail|{desc['seed'] % 100000}"}
    if bad:
        res.update(status="violation", detail=f"[failing C-implemented callables, retry={desc['retry']}] {bad}", mechanism="observer-trace",
                   witness={"trace": [f"{k}:{s}:{sc}:{x}" for _, _, k, s, sc, x in recorder.trace[:80]]})
    return res


def run_interrupt(desc):
    """'Also when the run fails': the thread that called run receives a real SIGINT while the k-th call is executing (that call, and the
    others in flight, end normally a little later). Whatever run raises, the observer is exited exactly once and AFTER every other
    notification, and nothing is left reported running."""
    import signal
    import threading
    import time

    if threading.current_thread() is not threading.main_thread():
        return {"status": "ok", "counters": {"interrupt_cases_skipped_not_main_thread": 1}, "nontrivial": False}
    if signal.getsignal(signal.SIGINT) is not signal.default_int_handler:
        signal.signal(signal.SIGINT, signal.default_int_handler)
    recorder = recobserver.RecObserver("rec")
    recs = [recorder]
    progress = recorder.progress()
    if desc.get("members", 1) > 1:
        recs.append(recobserver.RecObserver("rec2"))
        progress = (recs[0].progress(), recs[1].progress())
    st = {"n": 0, "fired": False}
    lock = threading.Lock()
    main_ident = threading.main_thread().ident
    holder = {}

    def pre(nid, att):
        with lock:
            st["n"] += 1
            hit = st["n"] == desc["k"] and not st["fired"]
            if hit:
                st["fired"] = True
        if hit:
            holder["H"].interrupt_sent = True
            if desc["seed"] % 2:
                time.sleep(0.006)  # (half of the cases: the caller has finished starting its workers and waits for them)
            signal.pthread_kill(main_ident, signal.SIGINT)
            time.sleep(0.04)  # still executing when the calling thread handles the interrupt
        elif st["fired"]:
            time.sleep(0.01)

    late = None
    try:
        R = plainrun.execute(desc, pre=pre, progress=progress, record_args=False, before_run=lambda R_: holder.__setitem__("H", R_.H))
        for _ in range(20):
            time.sleep(0.0005)  # an interrupt that was not handled inside run surfaces here
    except KeyboardInterrupt as e:
        late = e
        R = None
    time.sleep(0.08)  # anything still executing on a worker thread reports now
    bad = None
    for r_ in recs:
        trace = list(r_.trace)
        bad = recobserver.check_trace(trace, balanced=True, succeeded=False)
        if bad:
            break
    if bad is None and len(recs) == 2 and recs[0].signature() != recs[1].signature():
        bad = "the two members of the composite observer received different notification sequences"
    handled_inside = R is not None and isinstance(R.exc, KeyboardInterrupt)
    res = {"status": "ok", "counters": {"interrupt_runs": 1, "interrupts_handled_inside_run": int(handled_inside), "traces_checked": len(recs)},
           "nontrivial": handled_inside, "sig": f"interrupt|{desc['seed'] % 100000}"}
    if bad:
        res.update(status="violation", mechanism="observer-trace", witness={"trace": [f"{k}:{s}:{sc}:{x}" for _, _, k, s, sc, x in recs[0].trace[-60:]]},
                   detail=f"[SIGINT to the caller during call #{desc['k']}, W={desc['W']}, run raised {type(R.exc).__name__ if R is not None else 'nothing (interrupt surfaced later)'}] {bad}")
    return res


def run_dup_progress(desc):
    """The same Progress object listed more than once in run's `progress` (a Progress is a factory: every listing asks it for an observer of
    its own): as many observers are created as there are listings, and each receives the complete account."""
    import uberjob
    from uberjob.progress import Progress

    rng = random.Random(desc["seed"])
    made = []

    def factory():
        made.append(recobserver.RecObserver(f"rec{len(made)}"))
        return made[-1]

    p_ = Progress(factory)
    other = recobserver.RecObserver("other")
    listing = rng.choice([[p_, p_], (p_, p_), [p_, other.progress(), p_], [p_, p_, p_]])
    plan = uberjob.Plan()
    xs = [plan.call(lambda i=i: i) for i in range(rng.randint(1, 6))]
    out = plan.call(lambda *a: sum(a), *xs)
    exc = None
    try:
        uberjob.run(plan, output=out, progress=listing, max_workers=desc["W"])
    except BaseException as e:
        exc = e
    want = sum(1 for x in listing if x is p_)
    bad = None
    if exc is not None:
        bad = f"run raised {exc!r}"
    elif len(made) != want:
        bad = f"the same Progress object is listed {want} times in progress={type(listing).__name__}, but {len(made)} observer(s) were created from it"
    else:
        for r_ in made + ([other] if any(x is not p_ for x in listing) else []):
            bad = recobserver.check_trace(r_.trace, balanced=True, succeeded=True)
            if bad:
                break
        if bad is None and any(m.signature() != made[0].signature() for m in made):
            bad = "observers created from the same Progress received different notification sequences"
    res = {"status": "ok", "counters": {"dup_progress_runs": 1, "traces_checked": len(made)}, "nontrivial": True, "sig": f"dup|{desc['seed'] % 100000}"}
    if bad:
        res.update(status="violation", mechanism="observer-trace", detail=f"[one Progress listed several times] {bad}")
    return res


def run_many_callables(desc):
    """One process, several rounds, thousands of short-lived call functions per round (more than any internal cache holds), each round's
    functions freed before the next: the scopes reported for a run must carry the names of the functions of THAT run."""
    import gc

    import uberjob

    rng = random.Random(desc["seed"])
    bad = None
    checked = 0
    for rnd in range(4):
        fns = []
        for i in range(4400):
            def f(*a, _i=i):
                return _i
            f.__name__ = f.__qualname__ = f"r{rnd}_{i}"
            f.__module__ = "vmonfn"
            fns.append(f)
        plan = uberjob.Plan()
        for f in fns:
            plan.call(f)  # every function passes through Plan.call (binding check, caches)
        used = rng.sample(range(len(fns)), 25)
        plan2 = uberjob.Plan()
        nodes = [plan2.call(fns[i]) for i in used]
        recorder = recobserver.RecObserver("rec")
        got = uberjob.run(plan2, output=nodes, progress=recorder.progress(), max_workers=desc["W"])
        want = collections.Counter({(f"vmonfn.r{rnd}_{i}",): 1 for i in used})
        want[("gather_list",)] += 1
        tot = recobserver.totals(recorder.trace, "run")
        checked += 1
        if got != used:
            bad = f"round {rnd}: run returned {got[:5]}..., expected {used[:5]}..."
        elif tot != want:
            wrong = {k: v for k, v in tot.items() if want.get(k) != v}
            bad = f"round {rnd}: 'run' totals are reported under scopes {dict(list(wrong.items())[:4])} - not the names of the functions executed in this run ({list(want)[:3]}...)"
        if bad:
            break
        del fns, plan, plan2, nodes, recorder
        gc.collect()
    res = {"status": "ok", "counters": {"many_callables_rounds": checked}, "nontrivial": True, "sig": f"many|{desc['seed'] % 1000}"}
    if bad:
        res.update(status="violation", detail=f"[thousands of short-lived call functions in one process] {bad}", mechanism="observer-trace")
    return res


def run_dry(desc):
    """dry_run=True (without a registry, with an empty one, with a real one): the observer is still entered and exited exactly once and the
    'run' totals of the returned plan are announced; nothing is reported running."""
    import uberjob

    recs, progress = make_progress(desc)
    rng = random.Random(desc["seed"])
    if desc["registry"] == "full":
        rp = regmodel.gen_regplan(rng, max(2, desc["n"]))
        S = regmodel.Session(rp, desc["seed"])
        out_ids = history.choose_out(rng, S)
        res, exc = S.run(out_ids, W=1, dry_run=True, progress=progress)
        describe = S.describe(10)
    else:
        ir = irmod.gen_ir(rng, desc["n"], rich=True, cfg=desc.get("cfg"))
        H = rec.Harness(ir, record_args=False)
        plan = uberjob.Plan()
        out = irmod.build(ir, plan, H.make_fn)
        exc = res = None
        try:
            res = uberjob.run(plan, output=out, dry_run=True, progress=progress, registry=uberjob.Registry() if desc["registry"] == "empty" else None)
        except BaseException as e:
            exc = e
        describe = ir.describe(10)
    if exc is not None:
        return {"status": "inconclusive", "detail": f"dry run raised {exc!r}"}
    tr = recs[0].trace
    # (a dry run announces the 'run' totals of the plan it returns but executes none of them: completed == total is not demanded there)
    bad = recobserver.check_trace(tr, balanced=True, succeeded=False) if tr else "the observer received nothing during a dry run: not entered, not exited, no totals"
    if bad is None and any(t[2] in ("running", "completed", "failed") and t[3] == "run" for t in tr):
        bad = "a dry run reported calls of the 'run' section as running/completed"
    if bad is None:
        pplan = res[0]
        want = collections.Counter()
        from uberjob._graph import get_full_call_scope
        from uberjob.graph import Call

        for nd in pplan.graph.nodes():
            if type(nd) is Call:
                want[get_full_call_scope(nd)] += 1
        got = recobserver.totals(tr, "run")
        if got != +want:
            bad = f"'run' totals announced during the dry run {dict(got)} differ from the calls of the returned physical plan {dict(want)}"
    r_ = {"status": "ok", "counters": {"dry_run_traces": 1, f"dry_registry_{desc['registry']}": 1}, "nontrivial": True,
          "sig": hashlib.sha1(("dry|" + "\n".join(describe) + desc["registry"]).encode()).hexdigest()[:16]}
    if bad:
        r_.update(status="violation", detail=f"[dry run, registry={desc['registry']}] {bad}", mechanism="observer-trace",
                  witness={"plan": describe, "trace": [f"{k}:{s}:{sc}:{x}" for _, _, k, s, sc, x in tr[:60]]})
    return r_


def run_case(desc):
    if desc["mode"] == "faulty_member":
        bad, info = recobserver.run_with_faulty_member(desc["seed"], desc["members"], desc["bundled"], desc["compose"])
        res = {"status": "ok", "counters": {"faulty_member_runs": 1, f"faulty_member_{info['where']}": 1}, "nontrivial": True,
               "sig": f"faulty|{info['where']}|{info['faulty_member']}|{desc['members']}|{desc['bundled']}|{desc['compose']}"}
        if bad:
            res.update(status="violation", detail=f"[composite with a failing member: {info}] {bad}", mechanism="observer-trace", witness=info)
        return res
    if desc["mode"] == "flaky_completed":
        bad, info = recobserver.run_with_flaky_completed(desc["seed"])
        res = {"status": "ok", "counters": {"flaky_completed_runs": 1}, "nontrivial": True, "sig": f"flaky|{desc['seed'] % 1000}"}
        if bad:
            res.update(status="violation", detail=f"[composite (recorder, member raising inside 'completed'): {info}] {bad}", mechanism="observer-trace", witness=info)
        return res
    if desc["mode"] == "dry":
        return run_dry(desc)
    if desc["mode"] == "many_callables":
        return run_many_callables(desc)
    if desc["mode"] == "builtin_fail":
        return run_builtin_fail(desc)
    if desc["mode"] == "interrupt":
        return run_interrupt(desc)
    if desc["mode"] == "dup_progress":
        return run_dup_progress(desc)
    recs, progress = make_progress(desc)
    extra_calls = []
    if desc["mode"] == "plain":
        xkw = None
        if desc.get("transform"):
            tmode = desc["transform"]

            def extra_fn(*a):
                extra_calls.append(1)
                return a[0] if a else None

            extra_fn.__name__ = extra_fn.__qualname__ = "extra"
            extra_fn.__module__ = "vmonfn"

            def tp(p, out):
                # a transformation of the physical plan: returns a NEW plan object (or the same one) with one more call
                q = p if tmode == "inplace_add" else p.copy()
                if tmode == "copy_same":
                    return q, out
                new = q.call(extra_fn, out) if out is not None else q.call(extra_fn)
                return q, new

            xkw = {"transform_physical": tp}
        R = plainrun.execute(desc, progress=progress, record_args=False, extra_run_kwargs=xkw)
        H, ir = R.H, R.ir
        exc = R.exc
        balanced = all(k in ("exc", "value", "callerr", "ctorargs") for k, _ in R.fail.values())
        describe = ir.describe(12)
        sig_src = "\n".join(ir.describe(200)) + f"{sorted(R.fail)}"
    else:
        problems, stats, S, log = history.run_history(desc, props=())
        if problems:
            return {"status": "ok", "counters": {"prefix_histories_cut_short": 1}, "nontrivial": False}
        rng = random.Random(desc["seed"] ^ 0x15)
        for _ in range(rng.randint(0, 2)):
            dl = [i for i in S.reg if S.rp.role[i] in ("stored", "dsrc")]
            if dl:
                S.delete(rng.choice(dl))
        out_ids = history.choose_out(rng, S)
        fresh = history.choose_fresh(rng, S)
        exp = S.expect(out_ids, fresh)
        mtkw = {}
        if desc["seed"] % 5 == 1 and S.store_name:
            # one store cannot say how old its value is (the stale check's own failure path), under every error limit
            victim_store = rng.choice(sorted(S.store_name.values()))

            def mt_fails(kind, st):
                if kind == "mt" and st.name == victim_store:
                    raise FileNotFoundError(2, f"cannot stat the file behind {st.name}")

            S.H.store_hook = mt_fails
            mtkw = {"max_errors": rng.choice([0, None, None, 2])}
        try:
            res, exc = S.run(out_ids, W=desc["W"], sched=desc["sched"], fresh_tick=fresh, perturb=desc.get("perturb", "none"), seed=desc["seed"], progress=progress, **mtkw)
        finally:
            S.H.store_hook = None
        H, ir = S.H, S.ir
        balanced = True
        describe = S.describe(12)
        sig_src = "\n".join(S.describe(200)) + f"{S.state_desc()}|{out_ids}|{fresh}"
    tr = recs[0].trace
    bad = recobserver.check_trace(tr, balanced=balanced, succeeded=exc is None)
    scopes_seen = {t[4] for t in tr if t[4] is not None}
    counters = {"traces_checked": 1, "notifications": len(tr), "multithreaded_traces": int(len({t[1] for t in tr}) > 1),
                "traces_with_failures": int(any(t[2] == "failed" for t in tr)), "composite_member_comparisons": 0,
                "run_total_scopes_checked": 0, "stale_total_scopes_checked": 0}
    if bad is None:
        run_tot = recobserver.totals(tr, "run")
        if desc["mode"] == "plain":
            # harness calls: the run totals are those of the (pruned) physical plan = needed calls; executions must match after success
            needed = ir.needed() & set(ir.harness_calls())
            want = collections.Counter()
            for i in needed:
                n = ir.nodes[i]
                want[(*n.scope, "vmonfn." + n.fname)] += 1
            want.update(expected_builtin_totals(ir, None))
            if desc.get("transform") in ("copy_add", "inplace_add"):
                want[("vmonfn.extra",)] += 1  # the call added by transform_physical is part of the plan that runs
            want = +want
            if run_tot != want:
                extra = {k: v for k, v in run_tot.items() if want.get(k) != v}
                miss = {k: v for k, v in want.items() if run_tot.get(k) != v}
                bad = f"'run' totals per scope differ from the calls of the plan that has to run: observer {extra} vs counted {miss}"
            elif exc is None:
                execd = collections.Counter()
                for i, c in H.attempts.items():
                    n = ir.nodes[i]
                    execd[(*n.scope, "vmonfn." + n.fname)] += 1
                for k, v in execd.items():
                    if run_tot.get(k) != v:
                        bad = f"'run' total for scope {k} is {run_tot.get(k)} but {v} call(s) with that scope were executed"
                        break
            counters["run_total_scopes_checked"] = len(run_tot)
        else:
            # registry mode: harness calls + store operations. The harness counted them per call / per store (S.observed());
            # they are attributed to the registered node they serve through the exact-multiset oracle, which is first
            # confirmed against the harness' own counters.
            execs, reads, writes, side, mts = S.observed()
            want = collections.Counter()
            agree = S.check_counts(exp) is None
            for i, c in execs.items():
                n = ir.nodes[i]
                want[(*n.scope, "vmonfn." + n.fname)] += c

            def op_scope(i, op):
                n = ir.nodes[i]
                if n.kind == "lit":
                    return (*n.scope, "vmon.vstore.VStore." + op)
                fq = "source" if n.kind == "source" else "vmonfn." + n.fname
                return (*n.scope, fq, "vmon.vstore.VStore." + op)

            for i in exp.reads:
                want[op_scope(i, "read")] += 1
            for i in exp.writes:
                want[op_scope(i, "write")] += 1
            if out_ids is not None and not isinstance(out_ids, regmodel.Bare):
                want[("gather_list",)] += 1
            if not agree:
                want = run_tot  # the C05 oracle disagrees with the harness counters: not this property's business
            if exc is None and run_tot != want:
                extra = {k: v for k, v in run_tot.items() if want.get(k) != v}
                miss = {k: v for k, v in want.items() if run_tot.get(k) != v}
                bad = f"'run' totals per scope differ from what the harness counted: observer {extra} vs executed {miss}"
            counters["run_total_scopes_checked"] = len(run_tot)
            if bad is None:
                st_tot = recobserver.totals(tr, "stale")
                want = collections.Counter()
                for n in ir.nodes:
                    if n.kind == "lit":
                        continue  # only calls are examined / counted
                    fq = "source" if n.kind == "source" else "vmonfn." + n.fname
                    key = (*n.scope, fq) + (("vmon.vstore." + type(S.stores[n.id]).__name__,) if n.id in S.reg else ())
                    want[key] += 1
                if out_ids is not None and not isinstance(out_ids, regmodel.Bare):
                    want[("gather_list",)] += 1
                if not S.reg:
                    want = collections.Counter()  # an empty registry means no stale check at all
                if st_tot != want:
                    extra = {k: v for k, v in st_tot.items() if want.get(k) != v}
                    miss = {k: v for k, v in want.items() if st_tot.get(k) != v}
                    bad = f"'stale' totals differ from the number of calls examined: observer {extra} vs logical plan {miss}"
                counters["stale_total_scopes_checked"] = len(st_tot)
    if bad is None and desc["mode"] == "plain" and desc["seed"] % 4 == 0 and not desc.get("faults"):
        # the same Progress object (e.g. one composite_progress(...) kept in a variable) observes a SECOND run: again entered, notified, exited
        import uberjob

        n1 = [len(r_.trace) for r_ in recs]
        exc2 = None
        try:
            uberjob.run(R.plan, **R.kw)
        except BaseException as e:
            exc2 = e
        counters["second_runs_with_the_same_progress_object"] = 1
        for j, r_ in enumerate(recs):
            tr2 = [(q - n1[j], t, k, s_, sc, x) for q, t, k, s_, sc, x in r_.trace[n1[j]:]]
            if not tr2:
                bad = f"a second run with the same Progress object: member {j} received nothing at all (first run: {n1[j]} notifications)"
                break
            b2 = recobserver.check_trace(tr2, balanced=True, succeeded=exc2 is None)
            if b2:
                bad = f"a second run with the same Progress object, member {j}: {b2}"
                break
            if recobserver.totals(tr2, "run") != recobserver.totals(r_.trace[:n1[j]], "run"):
                bad = f"a second run of the same plan with the same Progress object announced different 'run' totals to member {j}"
                break
        for r_ in recs:
            del r_.trace[n1[recs.index(r_)]:]  # the member comparison below looks at the first run
    if bad is None and len(recs) > 1:
        # every member must receive every notification; each thread forwards its notifications in order, so the
        # per-thread subsequences must be identical (the interleaving of different threads may differ between members)
        def per_thread(rec):
            d = collections.defaultdict(list)
            for _, tid, k, s_, sc, x in rec.trace:
                d[tid].append((k, s_, sc, x))
            return d

        base = per_thread(recs[0])
        for r in recs[1:]:
            counters["composite_member_comparisons"] += 1
            if per_thread(r) != base:
                bad = f"composite members received different notifications ({len(recs[0].trace)} vs {len(r.trace)})"
                break
    sets = {}
    res = {"status": "ok", "counters": counters, "sets": sets,
           "nontrivial": counters["multithreaded_traces"] > 0 and len(scopes_seen) >= 2,
           "sig": hashlib.sha1((sig_src + f"|{desc['mode']}|{desc['W']}|{desc['members']}|{desc.get('bundled')}").encode()).hexdigest()[:16]}
    if desc["seed"] % 300 == 0 or bad:
        res["sample"] = {"desc": desc, "plan": describe, "trace_head": [f"{k}:{s}:{sc}:{x}" for _, _, k, s, sc, x in tr[:14]], "outcome": repr(exc)[:100]}
    if bad:
        res.update(status="violation", detail=bad, mechanism="observer-trace",
                   witness={"plan": describe, "trace": [f"{q}:{t % 10000}:{k}:{s}:{sc}:{x}" for q, t, k, s, sc, x in tr[:400]]})
    return res


def finalize(agg, tier):
    c = agg.counters
    reasons = []
    if c["multithreaded_traces"] < 100:
        reasons.append("fewer than 100 multi-threaded traces")
    if c["traces_with_failures"] < 50:
        reasons.append("fewer than 50 traces with failures")
    if c["composite_member_comparisons"] < 50:
        reasons.append("fewer than 50 composite member comparisons")
    if c["faulty_member_runs"] < 20:
        reasons.append("fewer than 20 runs with a failing composite member")
    if c["stale_total_scopes_checked"] < 100:
        reasons.append("too few stale-section totals checked")
    return reasons
