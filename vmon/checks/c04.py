"""C04 - each needed call runs exactly once and nothing unneeded runs."""
import hashlib
import random

from vmon import env, plainrun, preempt

ID = "C04"
LEVEL = "exploration"
RULE = (
    "cases = seeded random plans x output spec (none / literal-only / node / structure / all / sinks) x max_workers x "
    "scheduler x schedule driver (bytecode-granular yield injection) x {clean, failing calls, flaky calls with retry=n}; "
    "oracle: per-call start counters (<= attempts allowed in every run) and, for successful runs, executed set == IR "
    "ancestor closure of the output spec with every count == 1; non-trivial = the plan has both needed and unneeded "
    "calls or a join with >= 2 predecessors; distinct by (plan structure, output, W, scheduler, outcome)"
)
ASSUMPTIONS = [
    "execution counters are kept under the harness lock inside the plan's own functions",
    "the needed set is the IR ancestor closure of the navigable nodes of the output spec (opaque containers are opaque)",
]


def gen_cases(tier, seed):
    n = 1600 if tier == "quick" else 25000
    maxcalls = 40 if tier == "quick" else 110
    out = []
    for i in range(n):
        s = env.seed_for(seed, ID, tier, i)
        r = random.Random(env.seed_for(s, "descriptor"))  # independent of the stream run_case derives from the same seed
        ncalls = r.randint(1, maxcalls)
        W = plainrun.pick_W(r, ncalls)
        d = {"seed": s, "n": ncalls, "W": W, "sched": r.choice(["default", "random", None]),
             "perturb": r.choice(["instr", "instr", "line", "none"]) if W > 1 else "none"}
        mode = r.random()
        if mode < 0.55:
            pass
        elif mode < 0.8:
            d["faults"] = {"p": r.choice([0.05, 0.2, 0.5]), "kinds": ["exc", "base", "value"]}
            d["max_errors"] = r.choice([0, 1, 3, None])
        else:
            d["retry"] = r.choice([2, 3, 5])
            d["faults"] = {"p": r.choice([0.1, 0.4]), "kinds": ["exc", "value"], "flaky": True, "max_flaky": r.choice([1, 2, 4, 6])}
            d["max_errors"] = r.choice([0, None])
        out.append(d)
    out.extend(preempt.gen_descs(tier, seed, ID))  # deterministic single-preemption enumeration (vmon/preempt.py)
    for i in range(max(30, n // 40)):
        s = env.seed_for(seed, ID, tier, "interrupted", i)
        r = random.Random(env.seed_for(s, "descriptor"))
        out.append({"seed": s, "mode": "interrupted", "n": r.randint(3, 14), "W": r.choice([1, 2, 4]), "sched": r.choice(["default", "random"]), "perturb": "none", "delays": "none",
                    "k": r.choice([1, 1, 2, 3, 5]), "cfg": {"out": r.choice(["all", "sinks"])}})
    for i in range(max(30, n // 40)):
        s = env.seed_for(seed, ID, tier, "cyclic", i)
        r = random.Random(env.seed_for(s, "descriptor"))
        out.append({"seed": s, "mode": "cyclic", "n": r.randint(3, 16), "W": r.choice([1, 2, 4]), "sched": r.choice(["default", "random"]), "perturb": "none", "delays": "none",
                    "family": r.choice(["layers", "join", "tree", "random", "disconnected"])})
    out.extend(preempt.gen_descs2(tier, seed, ID, pairs_quick=90))  # (k1, k2) pairs of two preemptions: lost updates / double releases
    for i in range(max(20, n // 40)):
        # "no call is executed more than once per attempt allowed by retry": several calls sharing one function object / call targets that are
        # not plain functions, flaky, with retry (attempt budgets are per CALL) - scenarios shared with C10
        s = env.seed_for(seed, ID, tier, "retry_shared", i)
        r = random.Random(env.seed_for(s, "descriptor"))
        out.append({"seed": s, "mode": r.choice(["retry_shared", "retry_callables"]), "n": r.randint(2, 7), "W": r.choice([1, 2, 4]), "sched": r.choice(["default", "random"]),
                    "attempts": r.choice([2, 3, 4])})
    for i in range(max(24, n // 60)):
        # structures a user builds by hand: (a) ONE container object passed to several plan.call / plan.gather invocations and changed in place in between;
        # (b) sets whose members are tuples that contain nodes (hashable containers), as output, inside a dict, or as a call argument
        s = env.seed_for(seed, ID, tier, "odd_structures", i)
        r = random.Random(env.seed_for(s, "descriptor"))
        out.append({"seed": s, "mode": "odd_structures", "what": ["reused_container", "set_of_tuples"][i % 2], "W": r.choice([1, 2, 4]),
                    "sched": r.choice(["default", "random"]), "n": r.randint(3, 8)})
    return out


def run_cyclic(desc):
    """A plan whose needed part contains a dependency cycle (closed with add_dependency), next to plenty of ordinary source calls. Whether
    and how the cycle is reported is C07's business; C04's is this: IF run returns normally, it has executed exactly what the output needs."""
    import hashlib

    from vmon import ir as irmod

    rng = random.Random(desc["seed"])
    ir = irmod.gen_ir(rng, desc["n"], rich=False, cfg={"out": "all"})
    calls = ir.harness_calls()
    preds = ir.preds()
    pairs = [(a, b) for b in calls for a in ir.ancestors([b], preds) if a != b and ir.nodes[a].kind == "call"]
    if not pairs:
        return {"status": "ok", "counters": {"cyclic_cases_without_a_dependent_pair": 1}, "nontrivial": False}
    a, b = rng.choice(pairs)
    ir.deps.append((b, a))  # a is an ancestor of b: now a also waits for b
    R = plainrun.execute(desc, record_args=False, ir=ir)
    counters = {"cyclic_plans_run": 1, "cyclic_plans_rejected": int(R.exc is not None)}
    res = {"status": "ok", "counters": counters, "nontrivial": True, "sig": hashlib.sha1(("\n".join(ir.describe(80)) + f"|cyc|{a}|{b}").encode()).hexdigest()[:16]}
    if R.exc is None:
        executed = set(R.H.attempts)
        needed = set(calls)
        res.update(status="violation", mechanism="execution-count", witness={"plan": ir.describe(80), "cycle_edge": [b, a]},
                   detail=f"run on a plan with a dependency cycle (n{a} -> ... -> n{b} -> n{a}) returned normally having executed {sorted(executed)[:12]} of the "
                          f"{len(needed)} calls its output needs (never executed: {sorted(needed - executed)[:12]})")
    return res


def run_interrupted(desc):
    """The caller is interrupted (a real SIGINT) while the k-th call executes. What run then does is C17's business - but IF it returns normally,
    that is a successful run, and a successful run has executed everything its output needs, once."""
    import hashlib
    import signal
    import threading
    import time

    if threading.current_thread() is not threading.main_thread():
        return {"status": "ok", "counters": {"interrupt_cases_skipped_not_main_thread": 1}, "nontrivial": False}
    if signal.getsignal(signal.SIGINT) is not signal.default_int_handler:
        signal.signal(signal.SIGINT, signal.default_int_handler)
    st = {"n": 0, "fired": False}
    lock = threading.Lock()
    main_ident = threading.main_thread().ident
    holder = {}

    def pre(nid, att):
        with lock:
            st["n"] += 1
            hit = st["n"] == desc["k"] and not st["fired"]
            if hit:
                st["fired"] = True
        if hit:
            holder["H"].interrupt_sent = True
            if desc["seed"] % 2:
                time.sleep(0.006)  # (half of the cases: the caller has finished starting its workers and waits for them)
            signal.pthread_kill(main_ident, signal.SIGINT)
            time.sleep(0.03)

    R = None
    try:
        R = plainrun.execute(desc, pre=pre, record_args=False, before_run=lambda R_: holder.__setitem__("H", R_.H))
        for _ in range(20):
            time.sleep(0.0005)  # an interrupt that was not handled inside run surfaces here
    except KeyboardInterrupt:
        pass
    counters = {"interrupted_runs": 1, "interrupted_runs_that_returned_normally": 0}
    res = {"status": "ok", "counters": counters, "nontrivial": st["fired"], "sig": hashlib.sha1(f"interrupted|{desc['seed']}".encode()).hexdigest()[:16]}
    if R is not None and R.exc is None and st["fired"]:
        counters["interrupted_runs_that_returned_normally"] = 1
        needed = R.ir.needed() & set(R.ir.harness_calls())
        executed = set(R.H.attempts)
        over = {n_: c for n_, c in R.H.attempts.items() if c > 1}
        if executed != needed or over:
            res.update(status="violation", mechanism="execution-count", witness={"plan": R.ir.describe(60), "history": R.H.compact_history(120)},
                       detail=f"[SIGINT to the caller during call #{desc['k']}, W={desc['W']}] run RETURNED NORMALLY (the interrupt was swallowed) having executed "
                              f"{len(executed & needed)} of the {len(needed)} calls its output needs (never executed: {sorted(needed - executed)[:10]}; more than once: {over})")
    return res


def preempt_oracle(R, ir):
    H = R.H
    over = {nid: c for nid, c in H.attempts.items() if c > 1}
    if over:
        return f"call(s) executed more than once: {over}"
    if R.exc is None:
        needed = ir.needed() & set(ir.harness_calls())
        if set(H.attempts) != needed:
            return f"successful run executed {sorted(H.attempts)} but the output needs {sorted(needed)}"
    return None


def run_odd_structures(desc):
    import collections

    import uberjob

    rng = random.Random(desc["seed"])
    executed = collections.Counter()

    def mk(tag):
        def f(*a, **k):
            executed[tag] += 1
            return tag

        f.__name__ = f"leaf{tag}"
        return f

    def total(xs, *rest):
        executed["total"] += 1
        flat = []

        def walk(v):
            if isinstance(v, (list, tuple, set, frozenset)):
                for y in (sorted(v, key=repr) if isinstance(v, (set, frozenset)) else v):
                    walk(y)
            elif isinstance(v, dict):
                for k_, y in v.items():
                    walk(y)
            else:
                flat.append(v)

        walk(xs)
        return flat

    plan = uberjob.Plan()
    n = desc["n"]
    leaves = [plan.call(mk(i)) for i in range(n)]
    what = desc["what"]
    bad = None
    if what == "reused_container":
        # one list object, used for several calls and changed in place in between (append / remove / replace)
        box = [leaves[0]]
        want_sets = []
        calls = []
        for step in range(rng.randint(2, 4)):
            op = rng.choice(["append", "append", "remove", "replace"])
            if op == "append" or len(box) < 2:
                box.append(leaves[rng.randrange(1, n)])
            elif op == "remove":
                box.pop(rng.randrange(len(box)))
            else:
                box[rng.randrange(len(box))] = leaves[rng.randrange(n)]
            form = rng.choice(["arg", "gather", "nested"])
            node = plan.call(total, box) if form == "arg" else (plan.gather(box) if form == "gather" else plan.call(total, {"k": box}))
            calls.append((node, form))
            want_sets.append([leaves.index(x) for x in box])
        pick = rng.randrange(len(calls))
        out, form = calls[pick]
        want_leaves = set(want_sets[pick])
        want_value = [i for i in want_sets[pick]]
        label = f"one list object used for {len(calls)} calls and changed in place in between; the output is use #{pick + 1} ({form}) whose members then were leaves {want_sets[pick]}"
    else:
        mk_set = set  # (the gather rule names list, tuple, set and dict; a frozenset is an opaque value)
        members = rng.sample(range(n), rng.randint(1, min(3, n)))
        st = mk_set((leaves[i], f"tag{i}") for i in members)
        form = rng.choice(["output", "in_dict", "argument"])
        out = st if form == "output" else ({"structure": st} if form == "in_dict" else plan.call(total, st))
        want_leaves = set(members)
        want_value = None
        label = f"a {mk_set.__name__} of (node, text) tuples over leaves {sorted(members)} as {form}"
    exc = res = None
    try:
        res = uberjob.run(plan, output=out, max_workers=desc["W"], scheduler=desc["sched"], progress=None)
    except BaseException as e:  # noqa
        exc = e
    got = {k for k in executed if k != "total"}
    if exc is not None:
        bad = f"run raised {exc!r:.150}"
    elif got != want_leaves or any(executed[k] != 1 for k in got):
        bad = f"executed leaf calls {sorted(got)} (counts {dict(executed)}), the output depends on exactly {sorted(want_leaves)}, once each"
    else:
        # no symbolic node may be left in what run returns
        def has_node(v):
            if isinstance(v, uberjob.graph.Node):
                return True
            if isinstance(v, dict):
                return any(has_node(a) or has_node(b) for a, b in v.items())
            if isinstance(v, (list, tuple, set, frozenset)):
                return any(has_node(a) for a in v)
            return False

        if has_node(res):
            bad = f"run returned a structure that still contains symbolic nodes: {res!r:.150}"
        elif want_value is not None and form != "gather" and res != want_value:
            bad = f"run returned {res!r:.100}, expected {want_value}"
        elif want_value is not None and form == "gather" and list(res) != want_value:
            bad = f"run returned {res!r:.100}, expected {want_value}"
    r_ = {"status": "ok", "counters": {"odd_structure_runs": 1}, "sets": {"odd_structures": [what]}, "nontrivial": True, "sig": f"oddstruct|{what}|{desc['seed'] % 100000}"}
    if bad:
        r_.update(status="violation", mechanism="execution-count", detail=f"[{label}; W={desc['W']}, {desc['sched']}] {bad}")
    return r_


def run_case(desc):
    if desc.get("mode") == "odd_structures":
        return run_odd_structures(desc)
    if desc.get("mode") in ("retry_shared", "retry_callables"):
        from vmon.checks import c10

        r_ = (c10.run_retry_shared if desc["mode"] == "retry_shared" else c10.run_retry_callables)(desc)
        if r_.get("status") == "violation":
            r_["mechanism"] = "execution-count"
        return r_
    if desc.get("mode") == "preempt1":
        return preempt.enumerate_case(desc, preempt_oracle)
    if desc.get("mode") == "preempt2":
        return preempt.enumerate_pairs(desc, preempt_oracle)
    if desc.get("mode") == "cyclic":
        return run_cyclic(desc)
    if desc.get("mode") == "interrupted":
        return run_interrupted(desc)
    R = plainrun.execute(desc, record_args=False)
    ir, H = R.ir, R.H
    calls = set(ir.harness_calls())
    needed = ir.needed() & calls
    allowed = desc.get("retry") or 1
    counters, sets = {}, {}
    bad = None
    over = {nid: c for nid, c in H.attempts.items() if c > allowed}
    if over:
        bad = f"call(s) executed more often than allowed ({allowed} attempt(s)): {dict(list(over.items())[:5])}"
    # attempts must stop at the first success
    if bad is None:
        for nid, c in H.attempts.items():
            f = R.fail.get(nid)
            expect = 1 if f is None else min(allowed, f[1] + 1)
            if nid in H.ended_ok and c != expect:
                bad = f"call n{nid} succeeded but was started {c} times (expected {expect})"
                break
    succeeded = R.exc is None
    if bad is None and succeeded:
        executed = set(H.attempts)
        if executed != needed:
            extra, missing = sorted(executed - needed), sorted(needed - executed)
            bad = f"successful run executed a different set of calls than the output needs: unneeded executed {extra[:6]}, needed but not executed {missing[:6]}"
        counters["needed_calls_checked"] = len(needed)
        counters["unneeded_calls_checked"] = len(calls - needed)
    if bad is None and not succeeded and not R.fail:
        return {"status": "inconclusive", "detail": f"clean plan raised {R.exc!r} cause={R.exc.__cause__!r}",
                "counters": counters}
    counters.update(runs_successful=int(succeeded), runs_failed=int(not succeeded), call_counters_checked=len(H.attempts))
    plainrun.perturb_stats(R, counters, sets)
    preds = ir.preds()
    has_join = any(len([p for p in preds[c] if p in calls]) >= 2 for c in H.attempts)
    outcome = "ok" if succeeded else type(R.exc).__name__
    res = {
        "status": "ok", "counters": counters, "sets": sets,
        "nontrivial": bool((needed and (calls - needed)) or has_join),
        "sig": hashlib.sha1(("\n".join(ir.describe(200)) + f"|{desc['W']}|{desc['sched']}|{outcome}").encode()).hexdigest()[:16],
    }
    if desc["seed"] % 400 == 0 or bad:
        res["sample"] = {"desc": desc, "plan": ir.describe(25), "needed": sorted(needed)[:40],
                         "attempts": dict(sorted(H.attempts.items())[:40]), "outcome": outcome}
    if bad:
        res.update(status="violation", detail=bad, mechanism="execution-count",
                   witness={"plan": ir.describe(200), "history": H.compact_history(2000), "needed": sorted(needed),
                            "attempts": dict(H.attempts), "fail": {k: list(v) for k, v in R.fail.items()}})
    return res


def finalize(agg, tier):
    reasons = []
    c = agg.counters
    if c["runs_successful"] < 100:
        reasons.append("fewer than 100 successful runs")
    if c["unneeded_calls_checked"] < 100:
        reasons.append("plans had fewer than 100 unneeded calls in total")
    if c["preempt_holds_others_completed"] < 100:
        reasons.append("single-preemption enumeration: fewer than 100 holds during which the other predecessors completed their bookkeeping")
    if c["preempt2_ta_ran_to_end_while_tb_held"] < 300:
        reasons.append("two-preemption enumeration: fewer than 300 pairs in which the first worker ran on to the end while the second was held")
    if c["runs_failed"] < 20:
        reasons.append("fewer than 20 failing runs")
    return reasons
