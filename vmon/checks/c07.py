"""C07 - run always terminates and leaves nothing running; cycles are rejected up front."""
import collections
import hashlib
import random
import threading
import time

from vmon import abort, env, ir as irmod, plainrun, quiesce, rec

ID = "C07"
LEVEL = "exploration"
RULE = (
    "mode 'acyclic': seeded random plans x failure patterns (none / some / every call raising Exception or BaseException "
    "incl. KeyboardInterrupt/SystemExit inside workers) x max_errors x max_workers (1 .. #nodes+5) x scheduler x "
    "bytecode-granular yield injection, watched by a logical deadlock detector (all engine threads parked in untimed "
    "futex waits with unchanged context-switch counters while run has not returned => hang, witness = thread stacks); "
    "after run returns/raises: no call in flight, no thread created by run alive, no later event. mode 'cyclic': cycles "
    "(self-loop, 2-cycle, long, through a literal, among needed or unneeded nodes, with/without registry, dry_run) must be "
    "reported before any call/store event when they are among examined nodes and must never hang. non-trivial = failing "
    "pattern with more workers than ready nodes or a cyclic plan; distinct by (plan, failing set, W, scheduler, max_errors)"
)
ASSUMPTIONS = [
    "hang verdict is logical (kernel thread states), the wall-clock watchdog only yields inconclusive",
    "runs in this check use progress=None (the bundled observers' update thread uses timed waits and would blind the detector)",
]


def gen_cases(tier, seed):
    n = 1800 if tier == "quick" else 30000
    out = []
    for i in range(n):
        s = env.seed_for(seed, ID, tier, i)
        r = random.Random(env.seed_for(s, "descriptor"))  # independent of the stream run_case derives from the same seed
        if r.random() < 0.15:
            out.append({"seed": s, "mode": "cyclic", "n": r.randint(2, 20), "W": r.choice([1, 2, 4, 8]),
                        "sched": r.choice(["default", "random"]), "kind": r.choice(["self", "two", "long", "lit", "unneeded", "needed", "transform", "needed"]),
                        "registry": r.random() < 0.4, "dry": r.random() < 0.2,
                        # sparse plans: several independent pipelines plus isolated calls, so that the whole graph has fewer edges than nodes
                        "family": r.choice([None, None, "disconnected", "tree", "chain"]), "isolated": r.choice([0, 0, 3, 8])})
            continue
        q = r.random()
        if q < 0.04:
            out.append({"seed": s, "mode": "observer_fault", "members": r.choice([1, 2, 3]), "compose": r.choice(["tuple", "flat", "nested"]), "W": 1, "sched": "default", "n": 2})
            continue
        if q < 0.055:
            # a user callback other than a plan function fails: an observer notification, the retry decorator, transform_physical
            out.append({"seed": s, "mode": "callback_fault", "n": r.randint(1, 14), "W": r.choice([1, 2, 4, 8]), "sched": r.choice(["default", "random"]),
                        "where": r.choice(["obs_total", "obs_running", "obs_completed", "obs_failed", "retry_wrap", "retry_call", "transform_raise", "transform_none",
                                           "html_output_raises", "html_path_missing_dir", "html_output_raises", "html_output_slow", "html_output_raises_once", "html_output_raises_once"]),
                        "j": r.choice([1, 1, 2, 3, 5]), "kind": r.choice(["exc", "exc", "base"]), "cfg": {"out": r.choice(["all", "sinks"])},
                        "max_errors": r.choice([0, 0, 2, None])})
            continue
        if q < 0.07:
            # the operating system refuses a new thread / the caller is interrupted inside Thread.start(): run must still end and leave nothing behind
            out.append({"seed": s, "mode": "thread_start_fault", "n": r.randint(1, 12) if s % 3 else r.randint(10, 30), "W": r.choice([1, 2, 3, 4, 8]), "sched": r.choice(["default", "random"]),
                        "k": r.choice([1, 1, 2, 3, 5]), "kind": r.choice(["refused", "refused", "kbi_after_start", "kbi_before_start"]),
                        "queued": r.choice([None, None, 1, 2, 3, 5]),
                        "cfg": {"out": r.choice(["all", "sinks"])},
                        # half of them: the calls already in flight when the pool is torn down fail afterwards and exceed the error limit
                        **({"faults": {"p": r.choice([0.5, 1.0]), "kinds": ["exc"]}, "max_errors": r.choice([0, 0, 1])} if r.random() < 0.5 else {})})
            continue
        if q < 0.16:
            # registry runs in which a store operation or modified-time query (of a stored call, a source or a registered literal) raises
            out.append({"seed": s, "mode": "registry_fault", "n": r.randint(2, 16), "W": r.choice([1, 2, 4, 8]), "sched": r.choice(["default", "random"]),
                        "kind": r.choice(["exc", "base", "base"]), "only": r.choice([None, None, ["mt"], ["rd", "wr_before", "wr_after"]]),
                        "stale_W": r.choice([None, 1, 1, 2]), "max_errors": r.choice([0, 0, 2, None])})
            continue
        ncalls = r.randint(0, 30 if tier == "quick" else 80)
        W = r.choice([1, 2, 3, 4, 8, ncalls + 5, ncalls + 1, 16])
        d = {"seed": s, "mode": "acyclic", "n": ncalls, "W": W, "sched": r.choice(["default", "random"]),
             "cfg": {"out": r.choice(["all", "sinks", "struct", "node", "none", "litonly"])},
             "perturb": r.choice(["instr", "instr", "instr", "line", "none"]) if W > 1 else r.choice(["instr", "none"]),
             "max_errors": r.choice([0, 0, 1, 2, None])}
        f = r.random()
        if f < 0.3:
            pass
        elif f < 0.45:
            d["faults"] = {"p": 1.0, "kinds": [r.choice(["base", "kbi", "sysexit", "exc"])]}
        else:
            d["faults"] = {"p": r.choice([0.1, 0.3, 0.6]), "kinds": ["exc", "base", "kbi", "sysexit", "genexit", "value"]}
        if r.random() < 0.1:
            d["display"] = "html"
        out.append(d)
    for i in range(max(40, n // 40)):
        # the pool is torn down (a worker cannot be started / the caller is interrupted while starting them) with a FEW ready calls still queued
        s = env.seed_for(seed, ID, tier, "teardown_queued", i)
        r = random.Random(env.seed_for(s, "descriptor"))
        out.append({"seed": s, "mode": "thread_start_fault", "n": 4, "W": r.choice([3, 4, 6, 8]), "sched": r.choice(["default", "default", "random"]),
                    "k": r.choice([2, 3, 4, 5]), "kind": r.choice(["refused", "kbi_after_start", "kbi_before_start"]), "queued": r.choice([1, 2, 2, 3, 4]),
                    "cfg": {"out": "all"}})
    for i in range(max(30, n // 60)):
        s = env.seed_for(seed, ID, tier, "interrupt_wait", i)
        r = random.Random(env.seed_for(s, "descriptor"))
        out.append({"seed": s, "mode": "interrupt_wait", "n": r.randint(3, 14), "W": r.choice([1, 2, 4, 8]), "sched": r.choice(["default", "random"]), "k": r.choice([1, 1, 2, 3, 5]),
                    "perturb": "none", "delays": "none", "cfg": {"out": r.choice(["all", "sinks"])}})
    for i in range(max(24, n // 100)):
        # the plan is built by code whose FILE NAME is unusual (a notebook cell run by IPython, "<stdin>", a frozen module, an exec'd string, an empty
        # name, a very long path): a failing call there ends the run like any other (the error message is made in the worker's failure path)
        s = env.seed_for(seed, ID, tier, "odd_call_sites", i)
        r = random.Random(env.seed_for(s, "descriptor"))
        out.append({"seed": s, "mode": "odd_call_sites", "W": r.choice([1, 1, 2, 4]), "sched": r.choice(["default", "random"]), "max_errors": r.choice([0, None]),
                    "site": ["ipython_cell", "ipython_core_outer", "stdin", "frozen", "empty", "long", "ipython_core_inner", "percent"][i % 8], "nfail": r.choice([1, 2, 3]),
                    "progress": r.choice(["none", "none", "html"]), "depth": r.choice([0, 1, 2, 5])})
    for i in range(max(16, n // 150)):
        # (a) a call that keeps failing with one particular exception class (InterruptedError, BlockingIOError, TimeoutError, a user class, StopIteration ...) under
        # retry=n: the run ends after n attempts whatever the class; (b) plan functions that themselves run a plan (nested uberjob.run), many at once
        s = env.seed_for(seed, ID, tier, "retry_classes_nested", i)
        r = random.Random(env.seed_for(s, "descriptor"))
        out.append({"seed": s, "mode": "retry_classes" if i % 2 == 0 else "nested_runs", "W": r.choice([1, 2, 4]), "sched": r.choice(["default", "random"]), "retry": r.choice([2, 3, 5]),
                    "exc": ["InterruptedError", "BlockingIOError", "TimeoutError", "ConnectionResetError", "StopIteration", "UserTransient", "MemoryError", "RecursionError"][(i // 2) % 8],
                    "outer_W": r.choice([8, 64, 128, 128, 200]), "inner_W": r.choice([1, 1, 2]), "where": r.choice(["call", "mtime"])})
    for i in range(max(6, n // 150)):
        # hundreds of failing calls in one run that is allowed to go on, with a bundled display attached (which remembers only so many
        # exceptions): it ends like any other run
        s = env.seed_for(seed, ID, tier, "many_failures_display", i)
        r = random.Random(env.seed_for(s, "descriptor"))
        out.append({"seed": s, "mode": "acyclic", "n": r.randint(140, 260), "W": r.choice([1, 2, 4, 8]), "sched": r.choice(["default", "random"]), "independent": r.random() < 0.7, "family": "disconnected",
                    "cfg": {"out": "all"}, "perturb": "none", "delays": "none", "max_errors": r.choice([None, None, 1000]),
                    "faults": {"p": r.choice([0.9, 1.0]), "kinds": ["exc", "value"]}, "display": "html"})
    return out


class Watch:
    """Deadlock watch = wave driver that gates nothing."""

    def __init__(self, desc):
        self.info = None

        def on_deadlock(stacks):
            abort.abort_with({
                "status": "violation", "mechanism": "hang",
                "detail": "logical deadlock: every engine thread (incl. the thread that called run) is parked in an untimed wait, "
                          "no user function is executing, run has not returned",
                "witness": {"stacks": stacks, "desc": desc}, "counters": {"deadlocks": 1},
            })

        self.drv = quiesce.WaveDriver(random.Random(0), on_deadlock=on_deadlock, period=0.001)

    def __enter__(self):
        self.drv.start()
        return self

    def __exit__(self, *a):
        self.drv.run_done = True
        self.drv.stop()


def run_interrupt_wait(desc):
    """A real SIGINT reaches the caller while it waits for its workers (a call is executing). Whatever run then raises, it must END: a hang is
    a violation here as everywhere - except the one open known finding (D6), which is recognised by the site at which the KeyboardInterrupt
    was first raised (C17's RaiseSite) and left to C17."""
    import signal

    from vmon.checks import c17

    if threading.current_thread() is not threading.main_thread():
        return {"status": "ok", "counters": {"interrupt_cases_skipped_not_main_thread": 1}, "nontrivial": False}
    if signal.getsignal(signal.SIGINT) is not signal.default_int_handler:
        signal.signal(signal.SIGINT, signal.default_int_handler)
    RS = c17.RaiseSite()
    W = Watch(desc)

    def on_deadlock(stacks):
        s_ = RS.site
        if s_ and s_[0] == "__enter__" and s_[1] == "threading.py" and s_[2] and s_[2][1] == "queue.py":
            abort.abort_with({"status": "ok", "nontrivial": False, "counters": {"cases_dropped_interrupt_raised_at_the_known_finding_site_D6": 1}})
        abort.abort_with({"status": "violation", "mechanism": "hang",
                          "detail": f"[SIGINT to the caller while it waits for its workers, call #{desc['k']}, W={desc['W']}, {desc['sched']}] logical deadlock: every "
                                    f"engine thread (incl. the caller) is parked in an untimed wait, run has not returned (KeyboardInterrupt first raised in {s_})",
                          "witness": {"stacks": stacks, "desc": desc}, "counters": {"deadlocks": 1}})

    W.drv.on_deadlock = on_deadlock
    st = {"n": 0, "fired": False}
    lock = threading.Lock()
    main_ident = threading.main_thread().ident

    def pre(nid, att):
        with lock:
            st["n"] += 1
            hit = st["n"] == desc["k"] and not st["fired"]
            if hit:
                st["fired"] = True
        if hit:
            time.sleep(0.006)  # the caller has started its workers and waits for them
            signal.pthread_kill(main_ident, signal.SIGINT)
            time.sleep(0.03)

    R = None
    with W, RS:
        try:
            R = plainrun.execute(desc, record_args=False, hang_watch=False, pre=pre)
            for _ in range(20):
                time.sleep(0.0005)
        except KeyboardInterrupt:
            pass
    bad = None
    if R is not None:
        if R.in_flight_at_return:
            bad = f"{R.in_flight_at_return} of the plan's functions still executing when run returned/raised"
        else:
            leaked = [t for t in R.leaked if t.is_alive()]
            if leaked:
                bad = f"thread(s) created by run still alive after it returned/raised ({R.exc!r}): {[t.name for t in leaked]}"
    res = {"status": "ok", "counters": {"interrupt_wait_runs": 1, "thread_census_checks": 1}, "nontrivial": st["fired"],
           "sig": hashlib.sha1(f"intwait|{desc['seed']}".encode()).hexdigest()[:16]}
    if bad:
        res.update(status="violation", mechanism="leftover-activity", detail=f"[SIGINT to the caller while it waits, call #{desc['k']}, W={desc['W']}] {bad}")
    return res


def run_observer_fault(desc):
    """A bundled display (it owns an update thread) next to a user observer that raises in __enter__ / __exit__: run must still end and
    every thread it created must exit."""
    from vmon import recobserver

    W = Watch(desc)
    with W:
        bad, info = recobserver.run_with_faulty_member(desc["seed"], desc["members"], True, desc["compose"])
    res = {"status": "ok", "counters": {"observer_fault_runs": 1}, "nontrivial": True, "sig": f"obsfault|{info}"}
    if bad:
        res.update(status="violation", detail=f"[failing observer next to a bundled display: {info}] {bad}", mechanism="leftover-activity", witness=info, taint=True)
    return res


def run_thread_start_fault(desc):
    """threading.Thread.start fails for the k-th thread run starts: RuntimeError("can't start new thread") before the thread exists, or a
    KeyboardInterrupt delivered inside start() before / after the OS thread is running. Whatever run raises, it must return, no plan
    function may still be executing or start later, and every thread it created must exit."""
    import uberjob

    real_start = threading.Thread.start
    state = {"n": 0, "fired": False}
    main = threading.get_ident()
    W = Watch(desc)

    def start(self_):
        if threading.get_ident() == main and self_ is not W.drv.thread:
            state["n"] += 1
            if state["n"] == desc["k"] and not state["fired"]:
                state["fired"] = True
                if desc["kind"] == "refused":
                    raise RuntimeError("can't start new thread")
                if desc["kind"] == "kbi_before_start":
                    raise KeyboardInterrupt("interrupt inside Thread.start, before the thread runs")
                real_start(self_)
                raise KeyboardInterrupt("interrupt inside Thread.start, after the thread is running")
        return real_start(self_)

    holder = {}
    with W:
        threading.Thread.start = start
        try:
            # (calls of 1 ms; in every third case 8 ms and a wide plan, so that ready calls are still QUEUED when the pool is torn down)
            slow_ = 0.008 if desc["seed"] % 3 == 0 else 0.001
            ir_ = None
            if desc.get("queued") is not None:
                # independent calls of 10 ms: the workers that did get started are busy and exactly `queued` ready calls sit in the queue when the
                # pool is torn down (a sentinel pushed onto a queue that still holds a few nodes)
                slow_ = 0.01
                ir_ = irmod.IR()
                cs_ = [ir_.add("call", fname=f"f{i % 5}") for i in range(max(1, desc["k"] - 1 + desc["queued"]))]
                ir_.output = irmod.X("list", [irmod.ref(c.id) for c in cs_])
                ir_.meta["family"] = "independent"
            R = plainrun.execute(dict(desc, family="layers" if desc["seed"] % 3 == 0 else desc.get("family")) if desc["seed"] % 3 == 0 else desc,
                                 record_args=False, hang_watch=False, pre=lambda nid, att: time.sleep(slow_), ir=ir_)
        finally:
            threading.Thread.start = real_start
    H = R.H
    bad = None
    t_ret = time.monotonic()
    if desc.get("where") == "html_output_slow":
        still = [t.name for t in R.leaked if t.is_alive()]
        time.sleep(0.3)
        late = [x for x in state.get("out_ends", []) if x > t_ret]
        if still:
            bad = f"thread(s) created by run still alive when it returned/raised ({R.exc!r}): {still}" + (f"; {len(late)} display output call(s) ended afterwards" if late else "")
    if bad:
        pass
    elif R.in_flight_at_return:
        bad = f"{R.in_flight_at_return} of the plan's functions still executing when run returned/raised"
    else:
        leaked = [t for t in R.leaked if t.is_alive()]
        deadline = time.monotonic() + 5
        while leaked and time.monotonic() < deadline:
            # a thread parked for ever in an untimed wait never exits; one that is still finishing does
            probes = [quiesce.probe(t.native_id) for t in leaked if t.native_id]
            time.sleep(0.02)
            if probes and all(p[0] for p in probes) and probes == [quiesce.probe(t.native_id) for t in leaked if t.native_id]:
                break
            leaked = [t for t in leaked if t.is_alive()]
        if leaked:
            bad = f"thread(s) created by run still alive after it returned/raised ({R.exc!r}): {[t.name for t in leaked]}; events after return: {H.seq - R.seq_at_return}"
        elif H.seq != R.seq_at_return:
            bad = f"{H.seq - R.seq_at_return} event(s) were stamped after run returned/raised"
    if bad is None and state["fired"] and R.exc is None and desc["kind"] != "refused":
        bad = "a KeyboardInterrupt raised inside Thread.start was swallowed: run returned normally"
    res = {"status": "ok", "counters": {"thread_start_fault_runs": 1, "thread_start_faults_fired": int(state["fired"]), "thread_census_checks": 1},
           "sets": {"thread_start_fault_outcomes": [f"{desc['kind']}->{type(R.exc).__name__}"]}, "nontrivial": state["fired"],
           "sig": hashlib.sha1(("\n".join(R.ir.describe(60)) + f"|tsf|{desc['W']}|{desc['k']}|{desc['kind']}").encode()).hexdigest()[:16]}
    if bad:
        res.update(status="violation", detail=f"[Thread.start #{desc['k']} {desc['kind']}, W={desc['W']}] {bad}", mechanism="leftover-activity", taint=True,
                   witness={"plan": R.ir.describe(60), "history": H.compact_history(200)})
    if W.drv.error:
        return {"status": "inconclusive", "detail": "deadlock watch error: " + W.drv.error}
    return res


def run_callback_fault(desc):
    """The j-th call of one user callback raises (Exception or BaseException): a progress-observer notification, the retry decorator
    (while wrapping or while calling), transform_physical. Whatever run raises, it must end, nothing may still be executing or start later,
    and every thread it created must exit."""
    from vmon import recobserver

    where, j, kind = desc["where"], desc["j"], desc["kind"]
    state = {"n": 0, "fired": False}

    def boom(tag):
        state["n"] += 1
        if state["n"] == j and not state["fired"]:
            state["fired"] = True
            raise (rec.InjectedBase if kind == "base" else rec.InjectedError)(f"{tag} failed (call #{j})")

    class FaultyObs(recobserver.RecObserver):
        def increment_total(self_, **kw):
            recobserver.RecObserver.increment_total(self_, **kw)
            if where == "obs_total":
                boom("increment_total")

        def increment_running(self_, **kw):
            recobserver.RecObserver.increment_running(self_, **kw)
            if where == "obs_running":
                boom("increment_running")

        def increment_completed(self_, **kw):
            recobserver.RecObserver.increment_completed(self_, **kw)
            if where == "obs_completed":
                boom("increment_completed")

        def increment_failed(self_, **kw):
            recobserver.RecObserver.increment_failed(self_, **kw)
            if where == "obs_failed":
                boom("increment_failed")

    xkw = {}
    d = dict(desc)
    if where.startswith("obs_"):
        obs = FaultyObs()
        progress = obs.progress()
        if where == "obs_failed":
            d["faults"] = {"p": 0.5, "kinds": ["exc"]}
    else:
        progress = None
    if where.startswith("html_"):
        # a bundled display whose output keeps failing until the end of the run (directory removed, disk full, raising callback)
        import uberjob.progress as up

        state["fired"] = True
        state["display"] = True

        class CountingEvent(threading.Event):
            """the display's stop event: once it is set, a correct update loop sees it at its next wait and ends. A loop that keeps coming back
            (bounded: 25 more waits) will never let run return - a livelock, which kernel-state sampling cannot see (the thread is busy)."""

            def __init__(self):
                super().__init__()
                self.after_set = 0

            def wait(self, timeout=None):
                r_ = super().wait(timeout)
                if r_:
                    self.after_set += 1
                    if self.after_set == 25:
                        abort.abort_with({"status": "violation", "mechanism": "hang",
                                          "detail": f"[{where}] the display's update thread came back to its stop event 25 times after the event was set: "
                                                    "the observer's __exit__ (and with it run) never returns",
                                          "witness": {"desc": desc}, "counters": {"livelocks": 1}})
                return r_

        def with_counting_event(obs_):
            if isinstance(getattr(obs_, "_done_event", None), threading.Event):
                obs_._done_event = CountingEvent()
            return obs_

        if where == "html_output_raises":
            def out(b):
                raise OSError(28, "No space left on device")
            obs_f = lambda: with_counting_event(up.HtmlProgressObserver(out, initial_update_delay=0.0005, min_update_interval=0.0005, max_update_interval=0.002))
        elif where == "html_output_raises_once":
            # a transient fault: only the very first write of the page fails
            def out(b):
                state["outs"] = state.get("outs", 0) + 1
                if state["outs"] == 1:
                    raise OSError(5, "Input/output error (transient)")
            obs_f = lambda: with_counting_event(up.HtmlProgressObserver(out, initial_update_delay=0.0005, min_update_interval=0.0005, max_update_interval=0.002))
        elif where == "html_output_slow":
            # a display whose output takes much longer than its longest update interval (slow mount, busy front end): run still returns only
            # after the display's thread has written its last frame and exited
            def out(b):
                state.setdefault("out_calls", []).append(time.monotonic())
                time.sleep(0.12)
                state.setdefault("out_ends", []).append(time.monotonic())
            obs_f = lambda: with_counting_event(up.HtmlProgressObserver(out, initial_update_delay=0.0005, min_update_interval=0.0005, max_update_interval=0.01))
        else:
            missing = "/nonexistent-dir-for-vmon/sub/progress.html"
            obs_f = lambda: with_counting_event(up.HtmlProgressObserver(lambda b: open(missing, "wb").write(b), initial_update_delay=0.0005, min_update_interval=0.0005, max_update_interval=0.002))
        progress = up.Progress(obs_f)
    if where in ("retry_wrap", "retry_call"):
        def retry(f):
            if where == "retry_wrap":
                boom("retry decorator (wrapping)")

            def wrapper(*a, **k):
                if where == "retry_call":
                    boom("retry decorator (calling)")
                return f(*a, **k)
            return wrapper
        d["retry"] = retry
    if where == "transform_raise":
        def tp(p, o):
            state["n"] = j - 1
            boom("transform_physical")
        xkw["transform_physical"] = tp
    elif where == "transform_none":
        xkw["transform_physical"] = lambda p, o: None  # garbage instead of (plan, node)
        state["fired"] = True
    W = Watch(desc)
    with W:
        R = plainrun.execute(d, record_args=False, hang_watch=False, progress=progress, extra_run_kwargs=xkw)
    H = R.H
    bad = None
    t_ret = time.monotonic()
    if desc.get("where") == "html_output_slow":
        still = [t.name for t in R.leaked if t.is_alive()]
        time.sleep(0.3)
        late = [x for x in state.get("out_ends", []) if x > t_ret]
        if still:
            bad = f"thread(s) created by run still alive when it returned/raised ({R.exc!r}): {still}" + (f"; {len(late)} display output call(s) ended afterwards" if late else "")
    if bad:
        pass
    elif R.in_flight_at_return:
        bad = f"{R.in_flight_at_return} of the plan's functions still executing when run returned/raised"
    else:
        leaked = [t for t in R.leaked if t.is_alive()]
        deadline = time.monotonic() + 5
        while leaked and time.monotonic() < deadline:
            time.sleep(0.02)
            leaked = [t for t in leaked if t.is_alive()]
        if leaked:
            bad = f"thread(s) created by run still alive after it returned/raised ({R.exc!r}): {[t.name for t in leaked]}"
        elif H.seq != R.seq_at_return:
            bad = f"{H.seq - R.seq_at_return} event(s) were stamped after run returned/raised"
    if bad is None and state["fired"] and R.exc is None and not state.get("display"):
        bad = f"the failing callback ({where}) was swallowed: run returned normally"
    res = {"status": "ok", "counters": {"callback_fault_runs": 1, "callback_faults_fired": int(state["fired"]), "thread_census_checks": 1},
           "sets": {"callback_fault_outcomes": [f"{where}/{kind}->{type(R.exc).__name__}"]}, "nontrivial": state["fired"],
           "sig": hashlib.sha1(("\n".join(R.ir.describe(60)) + f"|cbf|{desc['W']}|{where}|{j}|{kind}").encode()).hexdigest()[:16]}
    if bad:
        res.update(status="violation", detail=f"[{where} #{j} raises {kind}, W={desc['W']}] {bad}", mechanism="leftover-activity", taint=True,
                   witness={"plan": R.ir.describe(60), "history": H.compact_history(200)})
    if W.drv.error:
        return {"status": "inconclusive", "detail": "deadlock watch error: " + W.drv.error}
    return res


def run_registry_fault(desc):
    from vmon import history, regmodel

    rng = random.Random(desc["seed"])
    rp = regmodel.gen_regplan(rng, desc["n"], cfg={"p_slit": 0.3})
    S = regmodel.Session(rp, desc["seed"])
    H = S.H
    if rng.random() < 0.5:
        S.run(None, W=2)  # start from an up-to-date state half of the time
        for _ in range(rng.randint(0, 2)):
            dl = [i for i in S.reg if rp.role[i] in ("stored", "dsrc", "slit")]
            if dl:
                S.delete(rng.choice(dl))
    out_ids = history.choose_out(rng, S)
    exp = S.expect(out_ids, None)
    nb = len(exp.execs) + 2 * len(exp.writes) + len(exp.reads) + len(S.reg)
    if desc["only"] == ["mt"]:
        nb = len(S.reg)
    f = history.Fault(H, k=rng.randint(1, max(1, nb)), kind=desc["kind"], only=desc["only"])
    f.install()
    W = Watch(desc)
    kw = {}
    if desc["stale_W"]:
        kw["stale_check_max_workers"] = desc["stale_W"]
    try:
        with W:
            res, exc = S.run(out_ids, W=desc["W"], sched=desc["sched"], max_errors=desc["max_errors"], hang_watch=False, **kw)
            seq_at_return = H.seq
            in_flight = H.in_flight + H.mt_in_flight
    finally:
        f.uninstall()
    bad = None
    leaked = S.leaked
    if in_flight:
        bad = f"{in_flight} call(s)/store operation(s) still executing when run returned/raised"
    elif leaked:
        time.sleep(0.05)
        bad = f"thread(s) created by run still alive after it returned/raised: {[t.name for t in leaked]}"
    else:
        time.sleep(0)
        if H.seq != seq_at_return:
            bad = f"{H.seq - seq_at_return} event(s) were stamped after run returned"
    if bad is None and f.fired is not None and exc is None:
        bad = f"fault fired at {f.fired} but run returned normally"
    lit_mt = bool(f.fired and f.fired[0] == "mt" and any(rp.role[i] == "slit" and S.store_name[i] == f.fired[1] for i in S.reg))
    res_ = {"status": "ok", "counters": {"registry_fault_runs": 1, "registry_faults_fired": int(f.fired is not None),
                                          "registry_faults_in_stale_check": int(bool(f.fired and f.fired[0] == "mt")),
                                          "registered_literal_mtime_faults": int(lit_mt), "thread_census_checks": 1},
            "sets": {"registry_fault_outcomes": [type(exc).__name__]}, "nontrivial": f.fired is not None,
            "sig": hashlib.sha1(("\n".join(S.describe(100)) + f"|{desc['W']}|{f.k}|{desc['kind']}|{desc['only']}").encode()).hexdigest()[:16]}
    if bad:
        res_.update(status="violation", detail=f"[registry run, fault {desc['kind']} at {f.fired}] {bad}", mechanism="leftover-activity", taint=True,
                    witness={"plan": S.describe(100), "history": H.compact_history(400)})
    if W.drv.error:
        return {"status": "inconclusive", "detail": "deadlock watch error: " + W.drv.error}
    return res_


def run_odd_call_sites(desc):
    import sys

    import uberjob
    import uberjob.progress as up

    site = desc["site"]
    core = "/opt/conda/lib/python3.12/site-packages/IPython/core/interactiveshell.py"
    fname = {"ipython_cell": "/tmp/ipykernel_4242/1234567890.py", "ipython_core_outer": "/home/u/nb/plans.py", "ipython_core_inner": core, "stdin": "<stdin>",
             "frozen": "<frozen importlib._bootstrap>", "empty": "", "long": "/data/" + "very-long-directory-name/" * 60 + "plans.py", "percent": "/home/u/100%/{x}/plans\\n.py"}[site]
    lines = ["def build(plan, fns, depth):", "    if depth > 0:", "        return build(plan, fns, depth - 1)", "    return [plan.call(f) for f in fns]"]
    ns = {}
    exec(compile("\n".join(lines) + "\n", fname, "exec"), ns)
    outer = {}
    # the cell is run by IPython: the frames above the user's code are IPython's (run_code <- run_ast_nodes <- run_cell ...)
    exec(compile("def run_code(f, *a):\n    return f(*a)\n", core, "exec"), outer)
    raised = {}
    calls_running = [0]

    def mk(i):
        def f():
            calls_running[0] += 1
            try:
                e = ValueError(f"call {i} failed")
                raised[i] = e
                raise e
            finally:
                calls_running[0] -= 1

        f.__name__ = f"failing{i}"
        return f

    def okf():
        return 1

    fns = [mk(i) for i in range(desc["nfail"])] + [okf, okf]
    plan = uberjob.Plan()
    if site in ("ipython_cell", "ipython_core_outer"):
        nodes = outer["run_code"](ns["build"], plan, fns, desc["depth"])
    else:
        nodes = ns["build"](plan, fns, desc["depth"])
    progress = None
    if desc["progress"] == "html":
        progress = up.Progress(lambda: up.HtmlProgressObserver(lambda b: None, initial_update_delay=0.001, min_update_interval=0.002, max_update_interval=0.02))
    box = {}

    def go():
        try:
            box["res"] = uberjob.run(plan, output=nodes, max_workers=desc["W"], scheduler=desc["sched"], max_errors=desc["max_errors"], progress=progress)
        except BaseException as e:  # noqa
            box["exc"] = e

    before = rec.thread_census()
    th = threading.Thread(target=go, daemon=True)
    th.start()
    th.join(20)
    res = {"status": "ok", "counters": {"odd_call_site_runs": 1}, "sets": {"odd_call_sites": [site]}, "nontrivial": True,
           "sig": f"oddsite|{site}|{desc['W']}|{desc['sched']}|{desc['max_errors']}|{desc['nfail']}|{desc['progress']}|{desc['depth']}"}
    label = f"[plan built by code in file {fname[:70]!r}{'...' if len(fname) > 70 else ''} ({site}), {desc['nfail']} failing call(s), W={desc['W']}]"
    if th.is_alive():
        # bounded progress: no plan function is executing; sample the engine threads - if one of them is found INSIDE the same uberjob function in every one of
        # 200 samples spread over >= 4 s it is spinning there (a parked thread is the deadlock detector's business)
        spots = collections.Counter()
        samples = 0
        t0 = time.monotonic()
        while samples < 200 or time.monotonic() - t0 < 4.0:
            fr = dict(sys._current_frames())
            for tid, f in fr.items():
                if tid == threading.get_ident():
                    continue
                g = f
                inner_uber = None
                while g is not None:
                    if "/uberjob/" in g.f_code.co_filename.replace("\\", "/"):
                        inner_uber = (tid, g.f_code.co_name)
                        break
                    g = g.f_back
                if inner_uber and f.f_code.co_name not in ("wait", "get", "join", "acquire", "_wait_for_tstate_lock"):
                    spots[inner_uber] += 1
            samples += 1
            time.sleep(0.02)
            if not th.is_alive():
                break
        if th.is_alive() and calls_running[0] == 0:
            spinning = [(k, v) for k, v in spots.items() if v >= samples]
            if spinning:
                res.update(status="violation", mechanism="hang", taint=True,
                           detail=f"{label} run has not ended after 20 s + {samples} samples over {time.monotonic() - t0:.1f} s: no plan function is executing and engine thread "
                                  f"{spinning[0][0][0]} was inside uberjob's {spinning[0][0][1]}() - running, not waiting - in every sample (a loop that never ends)")
                return res
        if th.is_alive():
            return {"status": "inconclusive", "taint": True, "detail": f"{label} run still alive after 20 s of wall clock, no spinning engine thread identified"}
    exc = box.get("exc")
    bad = None
    if type(exc) is not uberjob.CallError:
        bad = f"run ended with {exc!r:.100} / returned {box.get('res')!r:.60} instead of raising CallError"
    else:
        try:
            msg = str(exc)
        except BaseException as e:  # noqa
            bad = f"str(CallError) raised {e!r}"
        else:
            if "Symbolic traceback" not in msg:
                bad = f"CallError message has no symbolic traceback: {msg[:120]!r}"
    if bad is None:
        leaked = rec.new_threads(before)
        leaked = [t_ for t_ in leaked if t_ is not th]
        if leaked:
            time.sleep(0.05)
            leaked = [t_ for t_ in leaked if t_.is_alive()]
            if leaked:
                bad = f"thread(s) created by run still alive after it raised: {[t_.name for t_ in leaked]}"
    if bad:
        res.update(status="violation", mechanism="leftover-activity", detail=f"{label} {bad}", taint=True)
    return res


def run_retry_classes(desc):
    """retry=n and a call (or a store's modified-time query) that fails with the same exception class every time: after n attempts the run raises. A retry
    loop that does not count some class would go on for ever - the harness function gives up (and says so) after 40*n attempts."""
    import datetime as dt

    import uberjob
    from uberjob import ValueStore

    class UserTransient(Exception):
        pass

    cls = {"UserTransient": UserTransient}.get(desc["exc"]) or getattr(__import__("builtins"), desc["exc"])
    n = desc["retry"]
    attempts = [0]
    gave_up = [False]

    def failing(*a):
        attempts[0] += 1
        if attempts[0] > 40 * n:
            gave_up[0] = True
            raise SystemExit("harness: giving up")
        raise cls(4, "interrupted") if issubclass(cls, OSError) else cls("again")

    class S(ValueStore):
        def read(self):
            return 1

        def write(self, v):
            pass

        def get_modified_time(self):
            failing()
            return dt.datetime(2020, 1, 1)

    plan = uberjob.Plan()
    registry = None
    if desc["where"] == "mtime":
        registry = uberjob.Registry()
        x = plan.call(lambda: 1)
        registry.add(x, S())
        out = x
    else:
        out = plan.call(failing, plan.call(lambda: 1))
    exc = None
    W = Watch(desc)
    with W:
        try:
            uberjob.run(plan, output=out, registry=registry, retry=n, max_workers=desc["W"], scheduler=desc["sched"], progress=None)
        except BaseException as e:  # noqa
            exc = e
    res = {"status": "ok", "counters": {"retry_class_runs": 1}, "sets": {"retry_exception_classes": [desc["exc"]]}, "nontrivial": True,
           "sig": f"retrycls|{desc['exc']}|{n}|{desc['where']}|{desc['W']}|{desc['sched']}"}
    bad = None
    if gave_up[0]:
        bad = f"the failing {'call' if desc['where'] == 'call' else 'modified-time query'} was attempted more than {40 * n} times under retry={n} (it raises {desc['exc']} every time): this run would never end"
    elif exc is None:
        bad = f"run returned although its {'call' if desc['where'] == 'call' else 'modified-time query'} fails every time"
    if bad:
        res.update(status="violation", mechanism="hang", detail=f"[retry={n}, W={desc['W']}] {bad}")
    return res


def run_nested_runs(desc):
    """Plan functions that run a plan themselves (uberjob.run inside a call), outer_W of them at the same time: every one of them returns."""
    import uberjob

    OW, IW = min(desc["outer_W"], 128), desc["inner_W"]
    meet = threading.Barrier(OW)

    def inner_job(i):
        meet.wait(60)  # all OW calls are in flight (the outer run has all of its OW workers) before any of them starts its inner run
        p = uberjob.Plan()
        a = p.call(lambda: i)
        b = p.call(lambda x: x + 1, a)
        return uberjob.run(p, output=b, max_workers=IW, progress=None)

    plan = uberjob.Plan()
    outs = [plan.call(inner_job, i) for i in range(OW)]
    box = {}

    def go():
        try:
            box["res"] = uberjob.run(plan, output=outs, max_workers=OW, scheduler=desc["sched"], progress=None)
        except BaseException as e:  # noqa
            box["exc"] = e

    W = Watch(desc)
    with W:
        go()
    res = {"status": "ok", "counters": {"nested_run_cases": 1, "nested_runs": OW}, "sets": {"nested_outer_workers": [str(OW)]}, "nontrivial": True,
           "sig": f"nested|{OW}|{IW}|{desc['sched']}"}
    if "exc" in box:
        res.update(status="violation", mechanism="hang", detail=f"[{OW} calls that each run an inner plan, outer max_workers={OW}, inner max_workers={IW}] run raised {box['exc']!r:.150}")
    elif box.get("res") != [i + 1 for i in range(OW)]:
        res.update(status="violation", mechanism="hang", detail=f"[{OW} nested runs] wrong result {str(box.get('res'))[:100]}")
    return res


def run_case(desc):
    if desc["mode"] == "cyclic":
        return run_cyclic(desc)
    if desc["mode"] == "retry_classes":
        return run_retry_classes(desc)
    if desc["mode"] == "nested_runs":
        return run_nested_runs(desc)
    if desc["mode"] == "odd_call_sites":
        return run_odd_call_sites(desc)
    if desc["mode"] == "interrupt_wait":
        return run_interrupt_wait(desc)
    if desc["mode"] == "observer_fault":
        return run_observer_fault(desc)
    if desc["mode"] == "registry_fault":
        return run_registry_fault(desc)
    if desc["mode"] == "thread_start_fault":
        return run_thread_start_fault(desc)
    if desc["mode"] == "callback_fault":
        return run_callback_fault(desc)
    usable = quiesce.available()
    progress = None
    if desc.get("display") == "html":
        # a bundled display attached (its own lock and update thread take part in every notification)
        import uberjob.progress as up

        progress = up.Progress(lambda: up.HtmlProgressObserver(lambda b: None, initial_update_delay=0.001, min_update_interval=0.002, max_update_interval=0.02))
    ir_ = None
    if desc.get("independent"):
        ir_ = irmod.IR()
        cs = [ir_.add("call", fname=f"f{i % 7}") for i in range(desc["n"])]
        ir_.output = irmod.X("list", [irmod.ref(c.id) for c in cs])
        ir_.meta["family"] = "independent"
    W = Watch(desc)
    with W:
        R = plainrun.execute(desc, record_args=False, hang_watch=False, progress=progress, ir=ir_)
    H, ir = R.H, R.ir
    bad = None
    if R.in_flight_at_return:
        bad = f"{R.in_flight_at_return} of the plan's functions still executing when run returned/raised"
    elif R.leaked:
        time.sleep(0.05)
        bad = f"thread(s) created by run still alive after it returned/raised: {[t.name for t in R.leaked]}; events after return: {H.seq - R.seq_at_return}"
    else:
        time.sleep(0)
        if H.seq != R.seq_at_return:
            bad = f"{H.seq - R.seq_at_return} event(s) were stamped after run returned"
    if bad is None and R.exc is not None and not R.fail:
        bad = f"clean plan raised {R.exc!r} (cause {R.exc.__cause__!r})"
    counters = {"acyclic_runs": 1, "detector_sampling_rounds": W.drv.rounds, "detector_rounds_all_parked": W.drv.parked_rounds, "detector_available": int(usable),
                "runs_all_calls_fail": int(bool(R.fail) and len(R.fail) == len(ir.harness_calls())),
                "runs_more_workers_than_nodes": int(desc["W"] > len(ir.nodes)), "runs_raised": int(R.exc is not None),
                "thread_census_checks": 1}
    sets = {}
    plainrun.perturb_stats(R, counters, sets)
    res = {"status": "ok", "counters": counters, "sets": sets,
           "nontrivial": bool(R.fail) or desc["W"] > len(ir.nodes),
           "sig": hashlib.sha1(("\n".join(ir.describe(200)) + f"|{desc['W']}|{desc['sched']}|{desc.get('max_errors')}|{sorted(R.fail)}").encode()).hexdigest()[:16]}
    if desc["seed"] % 400 == 0 or bad:
        res["sample"] = {"desc": desc, "plan": ir.describe(10), "outcome": repr(R.exc)[:160] if R.exc else "returned"}
    if bad:
        res.update(status="violation", detail=bad, mechanism="leftover-activity", taint=True,
                   witness={"plan": ir.describe(200), "history": H.compact_history(800)})
    if W.drv.error:
        return {"status": "inconclusive", "detail": "deadlock watch error: " + W.drv.error}
    return res


def run_cyclic(desc):
    import uberjob
    from vmon import vstore

    rng = random.Random(desc["seed"])
    ir = irmod.gen_ir(rng, desc["n"], rich=False, family=desc.get("family"), cfg={"out": "sinks", "p_par": 0.0} if desc.get("family") else {"out": "sinks"})
    for _ in range(desc.get("isolated", 0)):
        ir.add("call", fname="iso")  # calls nobody asks for: with a registry the whole plan is examined, and it has far fewer edges than nodes
    H = rec.Harness(ir, record_args=False)
    plan = uberjob.Plan()
    out = irmod.build(ir, plan, H.make_fn)
    calls = ir.harness_calls()
    needed = sorted(ir.needed() & set(calls))
    unneeded = sorted(set(calls) - set(needed))
    kind = desc["kind"]
    node = lambda i: ir.nodes[i].node
    preds = ir.preds()
    cyc_nodes = []
    tkw = {}
    if kind == "transform":
        # the plan handed to run is acyclic; the cycle is introduced by transform_physical into the plan that actually executes
        pool_t = needed or calls
        a_t = rng.choice(pool_t)

        def tp(p_, o_):
            anc_t = sorted((ir.ancestors([a_t], preds) - {a_t}) & set(calls))
            b_t = anc_t[0] if anc_t else a_t
            if p_.graph.has_node(node(a_t)) and p_.graph.has_node(node(b_t)):
                p_.add_dependency(node(a_t), node(b_t))
                tkw["applied"] = True
            return p_, o_

        tkw["transform_physical"] = tp
        cyc_nodes = [a_t, "via transform_physical"]
        examined = True
    elif kind == "unneeded" and len(unneeded) >= 1:
        a = rng.choice(unneeded)
        # only nodes from which no needed node is reachable stay unexamined without a registry
        desc_of_a = [c for c in unneeded if a in ir.ancestors([c], preds)]
        b = rng.choice(desc_of_a)
        plan.add_dependency(node(b), node(a))
        cyc_nodes = [a, b]
        examined = False
    else:
        pool = needed or calls
        a = rng.choice(pool)
        if kind == "self":
            plan.add_dependency(node(a), node(a))
            cyc_nodes = [a]
        elif kind == "lit":
            lit = plan.lit("cyc")
            plan.add_dependency(node(a), lit)
            plan.add_dependency(lit, node(a))
            cyc_nodes = [a, "lit"]
        else:
            anc = sorted((ir.ancestors([a], preds) - {a}) & set(calls))
            if not anc:
                plan.add_dependency(node(a), node(a))
                cyc_nodes = [a]
            else:
                b = anc[0] if kind == "long" else rng.choice(anc)
                plan.add_dependency(node(a), node(b))  # a depends on b already -> cycle
                cyc_nodes = [b, a]
        examined = a in needed
    reg = None
    stores = []
    if desc.get("registry"):
        reg = uberjob.Registry()
        clock = vstore.Clock()
        for c in rng.sample(calls, max(1, len(calls) // 3)):
            st = vstore.VStore(f"s{c}", clock, H)
            stores.append(st)
            reg.add(node(c), st)
        examined = True  # the stale check walks the whole plan
    elif desc.get("dry"):
        examined = False  # a dry run without registry executes and examines nothing; it only returns the pruned plan
    if kind == "transform":
        # the cycle exists only in the plan that executes: a dry run returns it without executing; nothing but "no hang" is demanded there
        examined = not desc.get("dry")
    W = Watch(desc)
    exc = None
    result = None
    before = rec.thread_census()
    with W:
        try:
            result = uberjob.run(plan, output=out, registry=reg, max_workers=desc["W"], scheduler=desc["sched"], progress=None,
                                 dry_run=bool(desc.get("dry")), **({"transform_physical": tkw["transform_physical"]} if "transform_physical" in tkw else {}))
        except BaseException as e:
            exc = e
    leaked = rec.new_threads(before)
    bad = None
    if leaked:
        bad = f"threads left alive after a cyclic plan: {[t.name for t in leaked]}"
    elif examined and kind == "transform" and not tkw.get("applied"):
        pass  # the transformation found nothing to connect (pruned away)
    elif examined:
        if exc is None:
            bad = f"cycle {cyc_nodes} among examined nodes was not reported: run returned {type(result).__name__}"
        elif H.events and kind == "transform":
            # stale check and store access legitimately precede the transformation; but no CALL may execute on a cyclic physical plan
            if any(e[1] == "start" for e in H.events):
                bad = f"cycle introduced by transform_physical reported ({exc!r}) only after calls had executed: {H.compact_history(6)}"
        elif H.events:
            bad = f"cycle {cyc_nodes} reported ({exc!r}) only after {len(H.events)} call/store event(s) had happened: {H.compact_history(6)}"
    else:
        # cycle among nodes the run does not examine: no hang (already decided), nothing else is demanded
        pass
    counters = {"cyclic_runs": 1, "cyclic_examined": int(examined), "cyclic_reported": int(exc is not None),
                "cyclic_with_registry": int(bool(reg)), "detector_sampling_rounds": W.drv.rounds}
    res = {"status": "ok", "counters": counters, "nontrivial": True,
           "sets": {"cycle_error_types": [type(exc).__name__] if exc is not None else []},
           "sig": hashlib.sha1(("\n".join(ir.describe(100)) + f"{kind}|{cyc_nodes}|{desc['W']}|{bool(reg)}").encode()).hexdigest()[:16]}
    if desc["seed"] % 100 == 0 or bad:
        res["sample"] = {"desc": desc, "cycle": cyc_nodes, "examined": examined, "raised": repr(exc)[:120]}
    if bad:
        res.update(status="violation", detail=bad, mechanism="cycle", witness={"plan": ir.describe(100), "cycle": cyc_nodes})
    return res


def finalize(agg, tier):
    c = agg.counters
    reasons = []
    if c["detector_available"] < c["acyclic_runs"]:
        reasons.append("quiescence detector unavailable (/proc/self/task/*/syscall)")
    if c["detector_sampling_rounds"] < c["acyclic_runs"]:
        reasons.append("deadlock detector took fewer sampling rounds than there were runs")
    if c["cyclic_examined"] < 20:
        reasons.append("fewer than 20 cyclic plans with the cycle among examined nodes")
    if c["registry_faults_fired"] < 30:
        reasons.append("fewer than 30 registry runs with a store fault")
    if c["thread_start_faults_fired"] < 15:
        reasons.append("fewer than 15 runs with a failing Thread.start")
    if c["observer_fault_runs"] < 10:
        reasons.append("fewer than 10 runs with a failing observer next to a bundled display")
    if c["runs_all_calls_fail"] < 20:
        reasons.append("fewer than 20 runs in which every call fails")
    return reasons
