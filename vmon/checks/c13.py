"""C13 - run, dry_run and render never modify the Plan or Registry they are given."""
import hashlib
import random
import shutil
import threading

from vmon import env, history, ir as irmod, plainrun, rec, regmodel, snapshot, perturb as pert

ID = "C13"
LEVEL = "exploration"
RULE = (
    "cases = seeded operations on generated plans/registries: run (success, failing call, failing modified-time query in the "
    "stale check, cyclic plan, dry_run, transform_physical, retry, bundled progress observers, fresh_time), render (with "
    "registry / predicate / level 0-4 / svg+dot formats, on plans and on dry-run results), T = 2-8 threads running one plan "
    "(and an up-to-date registry) concurrently under yield injection, and mutations of Plan.copy()/Registry.copy() vs "
    "their originals. oracle = identity-level structural snapshot (node objects in order, scopes, fn/value/stack-frame "
    "identities, edge multiset with key objects and attribute dicts, plan scope, registry entries with RegistryValue / "
    "store / stack-frame identities and is_source) taken before and after; concurrent results vs the reference "
    "interpreter. non-trivial = operation other than a plain successful run; distinct by (plan, operation, options)"
)
ASSUMPTIONS = ["snapshots compare object identities, not reprs", "graphviz 'dot' is available for render cases (else they are skipped and counted)"]

OPS = ["concurrent_rendezvous", "run_ok", "run_fail", "run_stalefail", "run_cycle", "dry", "render", "render_dry", "concurrent", "concurrent_reg", "copies", "run_opts", "foreign_entry", "run_dry_plan", "stub_source", "scope_independence", "empty_plan"]


def _anyargs(*a, **k):
    return len(a) + len(k)


def gen_cases(tier, seed):
    n = 1500 if tier == "quick" else 30000
    out = []
    for i in range(n):
        s = env.seed_for(seed, ID, tier, i)
        r = random.Random(env.seed_for(s, "descriptor"))  # independent of the stream run_case derives from the same seed
        out.append({"seed": s, "op": r.choice(OPS), "n": r.randint(1, 18 if tier == "quick" else 40), "W": r.choice([1, 2, 4, 8]),
                    "sched": r.choice(["default", "random"])})
    return out


def run_empty_plan(desc):
    """An EMPTY plan (nothing built yet) given to run with a node-free output, with and without dry_run / transform_physical / a registry: it
    is still empty afterwards, and what a dry run hands back is not the caller's own Plan object."""
    import uberjob

    rng = random.Random(desc["seed"])
    plan = uberjob.Plan()
    registry = uberjob.Registry() if rng.random() < 0.5 else None
    before = snapshot.plan_snapshot(plan)
    before_r = snapshot.registry_snapshot(registry)
    output = rng.choice([[], {}, (), [1, 2], {"k": 1}, 7, None, "text", [[], {}]])
    how = rng.choice(["dry", "dry", "transform", "plain", "dry_transform"])
    kw = dict(output=output, registry=registry, progress=None, max_workers=rng.choice([1, 2]))

    def tp(p_, o_):
        p_.call(len, [1])  # the callback may build on what it is handed: that is the physical plan, never the caller's
        return p_, o_

    if "transform" in how:
        kw["transform_physical"] = tp
    bad = None
    try:
        res = uberjob.run(plan, dry_run=how.startswith("dry"), **kw)
    except BaseException as e:
        bad = f"run on an empty plan (output={output!r}, {how}) raised {e!r}"
        res = None
    if bad is None:
        d = snapshot.diff(before, snapshot.plan_snapshot(plan))
        if d:
            bad = f"run on an EMPTY plan (output={output!r}, {how}) modified the caller's Plan: {d}"
        elif how.startswith("dry") and isinstance(res, tuple) and res[0] is plan:
            bad = f"the dry run of an empty plan (output={output!r}) handed back the caller's own Plan object as the physical plan"
        elif snapshot.diff(before_r, snapshot.registry_snapshot(registry)):
            bad = "run on an empty plan modified the caller's Registry"
    r_ = {"status": "ok", "counters": {"operations": 1, "op_empty_plan": 1, "snapshots_compared": 1}, "nontrivial": True, "sig": f"empty|{desc['seed'] % 100000}",
          "sets": {"ops": ["empty_plan" + ("+registry" if registry is not None else "")]}}
    if bad:
        r_.update(status="violation", detail=f"[empty_plan] {bad}", mechanism="plan-mutated")
    return r_


def run_rendezvous(desc):
    """Two (or three) runs of ONE Plan object from several threads whose calls wait for each other: 'can be run concurrently' means the runs overlap -
    a run that waits for another run of the same plan to finish (a lock kept in the caller's Plan, a shared busy flag) never gets past the meeting point."""
    import uberjob
    from uberjob._testing import TestStore

    rng = random.Random(desc["seed"])
    T = rng.choice([2, 2, 3])
    with_reg = rng.random() < 0.6
    barrier = threading.Barrier(T)
    entered = []
    lock = threading.Lock()

    def meet():
        with lock:
            entered.append(threading.get_ident())
        barrier.wait(30)
        return 1

    def after(x, k):
        return x + k

    plan = uberjob.Plan()
    m = plan.call(meet)
    ys = [plan.call(after, m, k) for k in range(rng.randint(1, 3))]
    registry = None
    if with_reg:
        registry = uberjob.Registry()
        for y in ys[: rng.randint(1, len(ys))]:
            registry.add(y, TestStore())
    before = snapshot.plan_snapshot(plan)
    before_r = snapshot.registry_snapshot(registry)
    results = [None] * T
    excs = [None] * T

    def runner(j):
        try:
            results[j] = uberjob.run(plan, output=ys, registry=registry, max_workers=rng.choice([1, 2]), progress=None)
        except BaseException as e:  # noqa
            excs[j] = e

    ts = [threading.Thread(target=runner, args=(j,), daemon=True) for j in range(T)]
    for t_ in ts:
        t_.start()
    for t_ in ts:
        t_.join(90)
    bad = None
    if any(t_.is_alive() for t_ in ts):
        r_ = {"status": "inconclusive", "detail": "[concurrent_rendezvous] runs still alive after 90 s of wall clock"}
        return r_
    want = [1 + k for k in range(len(ys))]
    if any(e is not None for e in excs):
        n_in = len(entered)
        bad = (f"{T} runs of one Plan object{' with a registry' if with_reg else ''} whose calls wait for each other: a call waited 30 s for its counterpart in another run ({n_in} of {T} runs reached their first call at all) "
               f"(the runs do not overlap); raised {[repr(e)[:70] for e in excs if e is not None][:1]}")
    elif any(r != want for r in results):
        bad = f"concurrent runs returned {results}, expected {want} each"
    else:
        d = snapshot.diff(before, snapshot.plan_snapshot(plan))
        if d:
            bad = f"concurrent runs modified the caller's Plan: {d}"
        elif snapshot.diff(before_r, snapshot.registry_snapshot(registry)):
            bad = "concurrent runs modified the caller's Registry"
    r_ = {"status": "ok", "counters": {"operations": 1, "op_concurrent_rendezvous": 1, "snapshots_compared": 1, "concurrent_runners": T}, "nontrivial": True,
          "sig": f"rendezvous|{T}|{with_reg}|{len(ys)}|{desc['seed'] % 1000}", "sets": {"ops": ["concurrent_rendezvous" + ("+registry" if with_reg else "")]}}
    if bad:
        r_.update(status="violation", detail=f"[concurrent_rendezvous] {bad}", mechanism="concurrent-runs")
    return r_


def run_case(desc):
    import uberjob

    op = desc["op"]
    if op == "empty_plan":
        return run_empty_plan(desc)
    if op == "concurrent_rendezvous":
        return run_rendezvous(desc)
    rng = random.Random(desc["seed"])
    counters = {"operations": 1, f"op_{op}": 1, "snapshots_compared": 0}
    bad = None
    registry = None
    S = None
    use_reg = op in ("run_stalefail", "dry", "render_dry", "concurrent_reg", "foreign_entry", "stub_source") or (op in ("run_ok", "run_fail", "render", "copies", "run_cycle", "run_opts", "run_dry_plan") and rng.random() < 0.5)
    if use_reg:
        rp = regmodel.gen_regplan(rng, desc["n"])
        S = regmodel.Session(rp, desc["seed"])
        plan, registry, H, ir = S.plan, S.registry, S.H, S.ir
        out_ids = history.choose_out(rng, S)
        output = S.out_spec(out_ids)
        if op in ("concurrent_reg",) or rng.random() < 0.5:
            S.run(None, W=2)  # bring the registry up to date first
    else:
        ir = irmod.gen_ir(rng, desc["n"], rich=True)
        H = rec.Harness(ir, record_args=False)
        plan = uberjob.Plan()
        output = irmod.build(ir, plan, H.make_fn)
    before_p = snapshot.plan_snapshot(plan)
    before_r = snapshot.registry_snapshot(registry)
    detail = {}

    def compare(what):
        counters["snapshots_compared"] += 1
        d = snapshot.diff(before_p, snapshot.plan_snapshot(plan))
        if d:
            return f"{what} modified the caller's Plan: {d}"
        if registry is not None:
            d = snapshot.diff(before_r, snapshot.registry_snapshot(registry))
            if d:
                return f"{what} modified the caller's Registry: {d}"
        return None

    kw = dict(output=output, registry=registry, max_workers=desc["W"], scheduler=desc["sched"], progress=None)
    try:
        if op == "run_ok":
            try:
                uberjob.run(plan, **kw)
            except BaseException as e:
                detail["raised"] = repr(e)[:100]
            bad = compare("run")
        elif op == "run_opts":
            import uberjob.progress as up
            import datetime as dt

            def tp(p, o):
                p2 = p.copy()
                return p2, o

            kw.update(retry=rng.choice([2, None]), transform_physical=rng.choice([tp, None]),
                      progress=rng.choice([None, up.html_progress(lambda b: None), up.console_progress, (up.null_progress, up.null_progress)]))
            if registry is not None:
                kw["fresh_time"] = rng.choice([None, dt.datetime(2001, 1, 1, 0, 0, 5)])
                kw["stale_check_max_workers"] = rng.choice([None, 1, 3])
            try:
                uberjob.run(plan, **kw)
            except BaseException as e:
                detail["raised"] = repr(e)[:100]
            bad = compare(f"run with options {sorted(k for k, v in kw.items() if v is not None)}")
        elif op == "run_fail":
            calls = ir.harness_calls()
            failing = set(rng.sample(calls, max(1, len(calls) // 3))) if calls else set()
            H.pre = lambda nid, att: (_ for _ in ()).throw(rec.InjectedError(f"n{nid}")) if nid in failing else None
            exc = None
            try:
                uberjob.run(plan, **kw, max_errors=rng.choice([0, None]))
            except BaseException as e:
                exc = e
            H.pre = None
            detail["raised"] = repr(exc)[:80]
            bad = compare("failing run")
        elif op == "run_stalefail":
            victims = rng.sample(sorted(S.reg), max(1, len(S.reg) // 2)) if S.reg else []
            names = {f"s{i}" for i in victims}
            H.store_hook = lambda kind, st: (_ for _ in ()).throw(rec.InjectedError("mt")) if kind == "mt" and st.name in names else None
            exc = None
            try:
                uberjob.run(plan, **kw)
            except BaseException as e:
                exc = e
            H.store_hook = None
            detail["raised"] = repr(exc)[:80]
            counters["stale_failures_observed"] = int(exc is not None)
            bad = compare("run failing in the stale check")
        elif op == "run_cycle":
            calls = [n for n in ir.nodes if n.node is not None and n.kind in ("call", "source")]
            if len(calls) >= 1:
                a = rng.choice(calls)
                anc = [ir.nodes[i] for i in ir.ancestors([a.id]) if ir.nodes[i].node is not None and i != a.id]
                b = rng.choice(anc) if anc else a
                plan.add_dependency(a.node, b.node)
            before_p = snapshot.plan_snapshot(plan)
            exc = None
            try:
                uberjob.run(plan, **kw)
            except BaseException as e:
                exc = e
            detail["raised"] = repr(exc)[:80]
            bad = compare("run on a cyclic plan")
        elif op == "foreign_entry":
            # one registry shared by a plan and an extended copy of it: it holds an entry whose node is not in the plan being run.
            # Whatever run makes of that (today: an error), the caller's registry keeps all its entries.
            from vmon import vstore

            p2 = plan.copy()
            z = p2.call(len, [1, 2])
            registry.add(z, vstore.VStore("foreign", S.clock, H))
            before_r = snapshot.registry_snapshot(registry)
            for dry in (False, True):
                exc = None
                try:
                    uberjob.run(plan, **kw, dry_run=dry)
                except BaseException as e:
                    exc = e
                detail[f"raised_dry={dry}"] = repr(exc)[:80]
                bad = compare(f"run(dry_run={dry}) with a registry that also holds a node of another plan")
                if bad:
                    break
        elif op == "scope_independence":
            # a Plan and its copy do not share anything that one thread can hold against the other: while thread A is inside
            # `with plan.scope(...)`, thread B enters a scope on plan.copy(), builds calls there and runs the original plan
            holding = threading.Event()
            release = threading.Event()
            done = {}

            def holder_thread():
                with plan.scope("held-by-A"):
                    holding.set()
                    release.wait(10)

            def other_thread():
                try:
                    p2 = plan.copy()
                    with p2.scope("B"):
                        p2.call(len, [1])
                    done["copy_scope"] = True
                    uberjob.run(plan, **kw)
                    done["run"] = True
                except BaseException as e:
                    done["exc"] = repr(e)[:120]

            ta = threading.Thread(target=holder_thread)
            tb = threading.Thread(target=other_thread)
            ta.start()
            holding.wait(5)
            tb.start()
            tb.join(4)
            blocked = tb.is_alive()
            release.set()
            ta.join(10)
            tb.join(20)
            if blocked:
                bad = (f"while one thread was inside `with plan.scope(...)` on the original plan, another thread could not "
                       f"{'enter a scope on plan.copy()' if not done.get('copy_scope') else 'run the plan'} until that scope was left (blocked for 4 s): copies are not independent")
            elif "exc" in done and "copy_scope" not in done:
                bad = f"using plan.copy() from a second thread failed: {done['exc']}"
            if bad is None:
                before_p = snapshot.plan_snapshot(plan)
        elif op == "stub_source":
            # a second registry that stubs the sources of the first: the placeholder nodes created by registry.source are registered there
            # with Registry.add (is_source False). Runs with the second registry must leave ITS entries as they are.
            from vmon import vstore

            reg2 = uberjob.Registry()
            for node_, rv in registry.mapping.items():
                st2 = vstore.VStore("stub" + str(len(reg2)), S.clock, H)
                if rv.is_source:
                    st2.set_content(irmod.Val(("stub", len(reg2)), 0))
                reg2.add(node_, st2)
            snap2 = snapshot.registry_snapshot(reg2)
            for dry in (True, False):
                exc = None
                try:
                    uberjob.run(plan, output=output, registry=reg2, dry_run=dry, max_workers=desc["W"], scheduler=desc["sched"], progress=None)
                except BaseException as e:
                    exc = e
                detail[f"raised_dry={dry}"] = repr(exc)[:80]
                counters["snapshots_compared"] += 1
                d = snapshot.diff(snap2, snapshot.registry_snapshot(reg2))
                if d:
                    flags = [(a[3], b[3]) for a, b in zip(snap2, snapshot.registry_snapshot(reg2)) if a != b][:3]
                    bad = f"run(dry_run={dry}) with a registry that stubs source nodes via Registry.add modified that registry: {d} (is_source before/after: {flags})"
                    break
            if bad is None:
                bad = compare("runs with a stubbing second registry")
        elif op == "run_dry_plan":
            # the physical plan returned by a dry run is a Plan like any other: running it must not modify it either
            pp, out_node = uberjob.run(plan, **kw, dry_run=True)
            snap_pp = snapshot.plan_snapshot(pp)
            outcomes = []
            for attempt in range(2):
                H.reset() if hasattr(H, "reset") else None
                try:
                    r_ = uberjob.run(pp, output=out_node, max_workers=desc["W"], scheduler=desc["sched"], progress=None)
                    outcomes.append(("ok", irmod.canon(r_)[:200]))
                except BaseException as e:
                    outcomes.append(("exc", type(e).__name__))
                counters["snapshots_compared"] += 1
                d = snapshot.diff(snap_pp, snapshot.plan_snapshot(pp))
                if d:
                    bad = f"running the physical plan returned by a dry run modified that plan (run #{attempt + 1}): {d}"
                    break
            if bad is None and outcomes[0] != outcomes[1]:
                bad = f"running the dry run's physical plan twice gave different outcomes: {outcomes}"
            if bad is None:
                bad = compare("dry run + runs of its physical plan")
        elif op == "dry":
            res = uberjob.run(plan, **kw, dry_run=True)
            bad = compare("dry run")
            if bad is None:
                # the returned physical plan must not alias the caller's graph object
                if res[0] is plan or res[0].graph is plan.graph:
                    bad = "dry run returned the caller's own Plan/graph object"
        elif op in ("render", "render_dry"):
            if shutil.which("dot") is None:
                counters["render_skipped_no_dot"] = 1
            else:
                target = plan
                snap_t = None
                form = rng.choice(["plan", "plan", "graph", "tuple"]) if op == "render" else "dry"
                if form == "graph":
                    target = plan.graph  # render also accepts the bare graph
                elif form == "tuple":
                    calls_ = [n_ for n_ in plan.graph.nodes() if hasattr(n_, "fn")]
                    target = (plan, rng.choice(calls_)) if calls_ else plan  # ... and a (plan, output node) pair
                if op == "render_dry":
                    target = uberjob.run(plan, **kw, dry_run=True)
                    snap_t = snapshot.plan_snapshot(target[0])
                level = rng.choice([None, 0, 1, 2, 3, 4])
                pred = rng.choice([None, lambda u, d: type(u).__name__ == "Call", lambda u, d: bool(u.scope) or True])
                fmt = rng.choice(["svg", "dot", "svg"])
                out = None
                rexc = None
                try:
                    out = uberjob.render(target, registry=registry if rng.random() < 0.7 else None, predicate=pred, level=level, format=fmt)
                except BaseException as e:
                    rexc = e
                    detail["render_raised"] = repr(e)[:120]
                counters["renders"] = 1
                bad = compare(f"render({form} form, level={level}, format={fmt}, predicate={'yes' if pred else 'no'})")
                if bad is None and snap_t is not None:
                    counters["snapshots_compared"] += 1
                    d = snapshot.diff(snap_t, snapshot.plan_snapshot(target[0]))
                    if d:
                        bad = f"render(level={level}, predicate={'yes' if pred else 'no'}) modified the physical plan returned by the dry run: {d}"
                if bad is None and rexc is not None:
                    return {"status": "inconclusive", "detail": f"render raised {rexc!r} on a valid plan"}
                if bad is None and not out:
                    bad = "render returned nothing"
        elif op in ("concurrent", "concurrent_reg"):
            T = rng.choice([2, 3, 4, 8])
            results = [None] * T
            excs = [None] * T

            def runner(j):
                try:
                    results[j] = uberjob.run(plan, output=output, registry=registry, max_workers=rng.choice([1, 2, 4]), scheduler=desc["sched"], progress=None)
                except BaseException as e:
                    excs[j] = e

            if registry is None:
                ref = irmod.Evaluator(ir)
                try:
                    for i in sorted(ir.needed()):
                        if ir.nodes[i].kind != "unpack" or ir.nodes[i].node is not None:
                            ref.val(i)
                    want = ref.output()
                    # generator-valued calls can be consumed once per run: the harness recomputes them per run, fine
                except irmod.RefError:
                    want = None
            with pert.make(desc["seed"], rng.choice(["instr", "line", "none"])):
                ts = [threading.Thread(target=runner, args=(j,)) for j in range(T)]
                for t in ts:
                    t.start()
                for t in ts:
                    t.join()
            counters["concurrent_runners"] = T
            bad = compare(f"{T} concurrent runs of one plan")
            if bad is None:
                if any(e is not None for e in excs):
                    bad = f"concurrent run raised {[repr(e)[:80] for e in excs if e is not None][:2]}"
                elif registry is None:
                    for j in range(T):
                        if not irmod.struct_eq(results[j], want):
                            bad = f"concurrent runner {j} returned {irmod.canon(results[j], ir.opaque_ids)[:120]}, reference value is {irmod.canon(want, ir.opaque_ids)[:120]}"
                            break
                else:
                    raw, seen = S.scratch()
                    want = None if out_ids is None else (seen[int(out_ids)] if isinstance(out_ids, regmodel.Bare) else [seen[i] for i in out_ids])
                    for j in range(T):
                        if not irmod.struct_eq(results[j], want):
                            bad = f"concurrent runner {j} (up-to-date registry) returned {irmod.canon(results[j])[:120]}, expected {irmod.canon(want)[:120]}"
                            break
        elif op == "copies":
            leak = None
            p2 = plan.copy()
            s2 = snapshot.plan_snapshot(p2)
            # mutate the copy
            x = p2.call(len, [1, 2])
            some = list(p2.graph.nodes())
            p2.add_dependency(some[0], x)
            # ... and go on building on the copy the way a user would: inside a scope, new calls and gathers that take nodes of the shared part
            # (calls and literals, scoped and unscoped) as explicit arguments, positionally, by keyword and inside containers
            with p2.scope("built-on-the-copy", rng.randint(0, 3)):
                picks = rng.sample(some, min(len(some), 4))
                # (while a scope is open on the COPY, a call added to the original gets the original's scope - none - and the other way round below)
                probe = plan.call(_anyargs)
                if probe.scope != ():
                    leak = f"a call added to the original while a scope was open on its copy got the scope {probe.scope!r}"
                plan.graph.remove_node(probe)
                p2.call(_anyargs, *picks, k=picks[0])
                p2.gather([picks, {"k": picks[-1]}, (picks[0],)])
                for nd_ in picks[:2]:
                    p2.call(_anyargs, nd_)
            # annotations kept on nodes / edges of the COPY's graph (what a transform_physical callback or a rendering helper does with the plan it was given)
            for nd_ in some[:3]:
                p2.graph.nodes[nd_]["annotation-on-the-copy"] = object()
            for u_, v_, k_ in list(p2.graph.edges(keys=True))[:3]:
                p2.graph.edges[u_, v_, k_]["annotation-on-the-copy"] = object()
            p2.graph.graph["annotation-on-the-copy"] = 1
            if rng.random() < 0.5 and len(some) > 1:
                p2.graph.remove_node(some[1])
            bad = compare("mutating Plan.copy()") or (f"Plan.copy() is not independent of its original: {leak}" if leak else None)
            if bad is None:
                with plan.scope("open-on-the-original"):
                    p4 = plan.copy()
                    with p4.scope("inner-on-the-copy"):
                        c4 = p4.call(_anyargs)
                    c5 = p4.call(_anyargs)
                    if c4.scope != ("inner-on-the-copy",) or c5.scope != ():
                        bad = (f"a copy made while a scope was open on the original does not start with an empty scope of its own: calls added to it got "
                               f"{c4.scope!r} (inside its own scope block) and {c5.scope!r} (outside)")
            if bad is None:
                # mutate the original, the (second) copy must not change
                p3 = plan.copy()
                s3 = snapshot.plan_snapshot(p3)
                y = plan.call(len, [3])
                plan.add_dependency(list(plan.graph.nodes())[0], y)
                with plan.scope("built-on-the-original", rng.randint(0, 3)):
                    picks = rng.sample(list(p3.graph.nodes()), min(len(p3.graph), 4))
                    plan.call(_anyargs, *picks, k=picks[0])
                    plan.gather([picks, {"k": picks[-1]}])
                counters["snapshots_compared"] += 1
                d = snapshot.diff(s3, snapshot.plan_snapshot(p3))
                if d:
                    bad = f"mutating the original Plan changed its copy: {d}"
                before_p = snapshot.plan_snapshot(plan)
            if bad is None and registry is not None:
                r2 = registry.copy()
                sr2 = snapshot.registry_snapshot(r2)
                from vmon import vstore

                z = plan.call(len, [4])
                before_p = snapshot.plan_snapshot(plan)
                r2.add(z, vstore.VStore("extra", S.clock, H))
                for rv in list(r2.mapping.values())[:2]:
                    rv.value_store = vstore.VStore("swapped", S.clock, H)
                    rv.is_source = not rv.is_source
                bad = compare("mutating Registry.copy()")
                if bad is None:
                    r3 = registry.copy()
                    s3 = snapshot.registry_snapshot(r3)
                    w = plan.call(len, [5])
                    registry.add(w, vstore.VStore("extra2", S.clock, H))
                    for rv in list(registry.mapping.values())[:1]:
                        rv.value_store = vstore.VStore("swapped2", S.clock, H)
                    counters["snapshots_compared"] += 1
                    d = snapshot.diff(s3, snapshot.registry_snapshot(r3))
                    if d:
                        bad = f"mutating the original Registry changed its copy: {d}"
                counters["registry_copy_checks"] = 1
    except BaseException as e:
        import traceback

        return {"status": "inconclusive", "detail": f"harness error in op {op}: {e!r} {traceback.format_exc()[-600:]}"}
    res = {"status": "ok", "counters": counters, "sets": {"ops": [op + ("+registry" if registry is not None else "")]},
           "nontrivial": op != "run_ok",
           "sig": hashlib.sha1(("\n".join((S.describe(100) if S else ir.describe(100))) + f"|{op}|{desc['W']}|{desc['sched']}").encode()).hexdigest()[:16]}
    if desc["seed"] % 300 == 0 or bad:
        res["sample"] = {"desc": desc, "plan": (S.describe(8) if S else ir.describe(8)), "detail": detail}
    if bad:
        res.update(status="violation", detail=f"[{op}] {bad}", mechanism="mutation", witness={"plan": (S.describe(100) if S else ir.describe(100)), "detail": detail})
    return res


def finalize(agg, tier):
    reasons = []
    need = set(OPS)
    got = {o.split("+")[0] for o in agg.sets.get("ops", set())}
    if need - got:
        reasons.append(f"operations never exercised: {sorted(need - got)}")
    if agg.counters.get("renders", 0) < 20:
        reasons.append("fewer than 20 render operations (is graphviz 'dot' installed?)")
    if agg.counters.get("stale_failures_observed", 0) < 10:
        reasons.append("fewer than 10 runs failing in the stale check")
    return reasons
