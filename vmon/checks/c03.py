"""C03 - an incremental run gives the same outputs and stored values as from scratch."""
import random

from vmon import env, histcheck

ID = "C03"
LEVEL = "exploration"
RULE = (
    "cases = seeded histories over generated (plan, registry) pairs: stored calls, pure sources, dependent sources with "
    "dedicated unstored producers, unstored chains, plain-dependency edges, shuffled registry order, plain and "
    "normalising stores on a logical clock; steps in any order from {run(any output, W, scheduler, fresh_time, LINE "
    "perturbation), run with a fault at the k-th boundary event (Exception/BaseException), pure-source update, deletion "
    "of a stored or dependent-source value, fresh_time := now}; after every successful run the from-scratch evaluator "
    "must agree with the output and with every non-source store; non-trivial = the history has a successful run that "
    "rebuilt a strict non-empty subset of the stored nodes; distinct by (plan/registry structure, step sequence)"
)
ASSUMPTIONS = [
    "call functions are deterministic; stores return what was last written; modified times strictly increase with every write (logical clock)",
    "only documented registry patterns are generated (see DESIGN 2.2); fresh_time never lies in the future",
]


def gen_cases(tier, seed):
    n = 500 if tier == "quick" else 8000
    out = []
    for i in range(n):
        s = env.seed_for(seed, ID, tier, i)
        r = random.Random(env.seed_for(s, "descriptor"))  # independent of the stream run_case derives from the same seed
        out.append({"seed": s, "n": r.randint(2, 22 if tier == "quick" else 55), "steps": r.randint(3, 14 if tier == "quick" else 25),
                    # one history in five runs in a zone with daylight saving, its clock mapped onto instants around a transition, with
                    # mixed naive / aware representations ("modified times ... compared as instants")
                    "tz": r.choice(["America/New_York", "Europe/London", "Australia/Lord_Howe", "America/St_Johns", "Europe/Berlin"]) if r.random() < 0.3 else None})
    for i in range(n // 10):
        out.append({"seed": env.seed_for(seed, ID, tier, "file", i), "mode": "file"})  # histories over the bundled file stores (incl. symlinked source paths)
    return out


def run_case(desc):
    if desc.get("mode") == "file":
        from vmon.checks import c05

        return c05.run_file(desc, prop="C03")
    return histcheck.run_case(desc, "C03", ("C03",), "partial_rebuilds")


def finalize(agg, tier):
    c = agg.counters
    reasons = []
    if c["partial_rebuilds"] < 50:
        reasons.append("fewer than 50 partial rebuilds after a change")
    if c["faulted_runs"] < 50 or c["deletions"] < 50 or c["updates"] < 50:
        reasons.append("histories had too few faults/deletions/updates")
    if not {"stored", "psrc", "dsrc", "producer", "plain"} <= agg.sets.get("roles_seen", set()):
        reasons.append("not every node role occurred")
    return reasons
