"""C11 - file-backed stores replace their file atomically at every failure point."""
import errno
import hashlib
import json
import os
import pathlib
import random
import shutil
import subprocess
import sys
import tempfile

from vmon import env, fsfault

ID = "C11"
LEVEL = "fault_enumeration"
RULE = (
    "per generated write (store class in {Json,Pickle,Text,Binary,Touch}FileStore + staged_write + staged_write_path, "
    "str/pathlib path, target absent/present, value small / multi-chunk / empty / failing part-way through "
    "serialisation) a counted clean write lists its K file operations (open, write_1..write_n, close, replace); then "
    "EVERY operation index k is faulted with each of {EIO, ENOSPC, EACCES, EXDEV(replace only)} as an exception in-process "
    "and with os._exit(137) in a forked child; 'strace' cases repeat the matrix on the unmodified code path at system-call "
    "level (strace -e inject=<syscall>:error=E:when=k and :signal=KILL:when=k on openat/write/close/rename touching the "
    "target or its staging file). oracle = filesystem snapshot: target bytes in {complete old, complete new}, st_mtime_ns "
    "and inode unchanged while the old bytes are in place, no *.STAGING sibling after an exception, a normal return implies "
    "the complete new value, and after a kill a later ordinary write/read still works and leaves no staging file. "
    "non-trivial = fault at an operation after open and at/before replace with the target present; distinct by (store, "
    "path kind, presence, value class, k, fault)"
)
ASSUMPTIONS = [
    "single fault per write; os.remove inside the cleanup path is not faulted (that would be a second fault)",
    "process death is os._exit/SIGKILL (process dies, kernel lives): no fsync/power-loss reasoning",
    "exhaustive: every operation index of each generated write; the writes themselves are sampled",
]
WATCHDOG = {"quick": 240.0, "thorough": 900.0}
ERRS = [errno.EIO, errno.ENOSPC, errno.EACCES]
# errnos that Python maps onto OSError SUBCLASSES (FileNotFoundError, FileExistsError, PermissionError, InterruptedError, TimeoutError,
# IsADirectoryError, ...): one of them per fault point, so that a handler that treats some subclass specially is exercised
SUBCLASS_ERRS = [errno.ENOENT, errno.EEXIST, errno.EPERM, errno.EINTR, errno.ETIMEDOUT, errno.EISDIR, errno.ENOTDIR, errno.ECONNRESET, errno.ESTALE, errno.EDQUOT]


class Unserialisable:
    def __reduce__(self):
        raise TypeError("cannot pickle this")


class EmptyErrors(Exception):
    """an aggregate-style exception (a list of problems that happens to be empty / reports its length): its truth value is False"""

    def __len__(self):
        return 0


class UnserialisableFalsy:
    def __reduce__(self):
        raise EmptyErrors("cannot pickle this either")


def gen_cases(tier, seed):
    n = 220 if tier == "quick" else 2500
    out = []
    for i in range(n):
        s = env.seed_for(seed, ID, tier, i)
        r = random.Random(env.seed_for(s, "descriptor"))  # independent of the stream run_case derives from the same seed
        mode = "strace" if r.random() < (0.06 if tier == "quick" else 0.12) else "shim"
        out.append({"seed": s, "mode": mode, "store": r.choice(["json", "pickle", "text", "binary", "touch", "staged_write", "staged_write_path"]),
                    "path": r.choice(["str", "pathlib"]), "present": r.random() < 0.7,
                    # the existing target may be reached through a symbolic link or have a second hard link (a data file shared by name)
                    "link": r.choice([None, None, None, "symlink", "hardlink"]),
                    "value": r.choice(["small", "small", "chunks", "empty", "bad", "mixedkeys", "badopen", "badfalsy"]),
                    "leftover": r.random() < 0.3})
    for i in range(max(8, n // 14)):
        # two or three stores whose files are siblings (same stem) written at the same time with their file operations interleaved one at a
        # time: each target must end up holding its own complete value (shared with C08's file mode)
        out.append({"seed": env.seed_for(seed, ID, tier, "siblings", i), "mode": "siblings", "siblings": True, "mechanism": "atomicity", "store": "siblings",
                    "path": "mixed", "present": False, "value": "small"})
    for i in range(max(12, n // 20)):
        # an ordinary (non-root) user whose existing target is READ-ONLY (a protected cached result; replacing it needs only directory permission): the writer
        # is killed at one of its file operations, then the same user writes again
        s = env.seed_for(seed, ID, tier, "readonly_kill", i)
        r = random.Random(env.seed_for(s, "descriptor"))
        out.append({"seed": s, "mode": "readonly_kill", "store": r.choice(["json", "pickle", "text", "binary", "staged_write", "staged_write_path"]), "path": r.choice(["str", "pathlib"]),
                    "present": True, "value": r.choice(["small", "chunks"]), "filemode": r.choice([0o444, 0o444, 0o400, 0o555]),
                    # ... or the DIRECTORY is not the user's to change (mode 0555, somebody else's) while the existing target is writable for him: nothing can be
                    # staged there, so the write fails - and the target keeps its complete previous value at whatever point the writer dies
                    "locked_dir": i % 3 == 2})
    return out


BADOPEN = [False]  # the store is constructed with options that make open() fail AFTER it has created the file (unknown encoding, unbuffered text)


def make_value(store, vclass, r):
    """returns (value, serialisation_fails)"""
    if vclass == "badopen":
        if store in ("json", "text", "staged_write"):
            return ({"a": 1} if store == "json" else "text that is never written"), True
        vclass = "bad"
    if vclass == "badfalsy":
        # the serialisation fails with an exception INSTANCE whose truth value is False
        if store == "pickle":
            return [list(range(100)), UnserialisableFalsy()], True
        if store in ("staged_write", "staged_write_path"):
            return "user-raises-falsy", True
        vclass = "bad"
    if vclass == "mixedkeys":
        if store == "json":
            # legal for json.dump (keys are coerced to strings) but the keys cannot be ordered among themselves
            return {"a": [1, 2], 1: "one", None: {"x": 2, 3: [None]}, "z": {2.5: 1, "k": 2}}, False
        vclass = "small"
    if store == "json":
        if vclass == "small":
            return {"a": [1, 2, {"b": None}], "s": "x" * r.randint(0, 20)}, False
        if vclass == "chunks":
            return [{"k%d" % i: list(range(r.randint(0, 6)))} for i in range(r.randint(5, 40))], False
        if vclass == "empty":
            return r.choice([[], {}, "", None]), False
        return {"ok": list(range(30)), "deep": [1, 2, {"bad": Unserialisable()}]}, True
    if store == "pickle":
        if vclass == "small":
            return (1, "two", 3.0), False
        if vclass == "chunks":
            return [bytes(70000), list(range(5000))], False
        if vclass == "empty":
            return None, False
        return [list(range(100)), Unserialisable()], True
    if store in ("text", "staged_write", "staged_write_path"):
        if vclass == "small":
            return "hello\nworld", False
        if vclass == "chunks":
            return "line\n" * r.randint(2000, 40000), False
        if vclass == "empty":
            return "", False
        return (12345 if store == "text" else "user-raises"), True
    if store == "binary":
        if vclass == "small":
            return b"\x00\x01abc", False
        if vclass == "chunks":
            return bytes(r.getrandbits(8) for _ in range(1000)) * r.randint(10, 300), False
        if vclass == "empty":
            return b"", False
        return "not-bytes", True
    if store == "touch":
        if vclass == "bad":
            return "not-none", True
        return None, False
    raise AssertionError(store)


def _json_differs(raw, value):
    try:
        return json.loads(raw.decode()) != json.loads(json.dumps(value))
    except Exception:
        return True


class UserError(Exception):
    pass


def writer(store, path):
    """returns f(value) performing one write through the real uberjob code."""
    import uberjob.stores as st

    if BADOPEN[0] and store == "json":
        return st.JsonFileStore(path, encoding="vmon-no-such-codec").write
    if BADOPEN[0] and store == "text":
        return st.TextFileStore(path, encoding="vmon-no-such-codec").write
    if BADOPEN[0] and store == "staged_write":
        def w_bad(v):
            with st.staged_write(path, "w", buffering=0) as f:  # "can't have unbuffered text I/O": raised after the raw file exists
                f.write(v)
        return w_bad
    if store == "json":
        return st.JsonFileStore(path).write
    if store == "pickle":
        return st.PickleFileStore(path).write
    if store == "text":
        return st.TextFileStore(path).write
    if store == "binary":
        return st.BinaryFileStore(path).write
    if store == "touch":
        return st.TouchFileStore(path).write
    if store == "staged_write":
        def w(v):
            with st.staged_write(path, "w") as f:
                if v in ("user-raises", "user-raises-falsy"):
                    f.write("partial")
                    raise (UserError if v == "user-raises" else EmptyErrors)("user code failed inside staged_write")
                for i in range(0, len(v), 4096):
                    f.write(v[i:i + 4096])
        return w
    if store == "staged_write_path":
        def w(v):
            with st.staged_write_path(path) as sp:
                with open(sp, "w") as f:
                    if v in ("user-raises", "user-raises-falsy"):
                        f.write("partial")
                        f.flush()
                        raise (UserError if v == "user-raises" else EmptyErrors)("user code failed inside staged_write_path")
                    f.write(v)
        return w
    raise AssertionError(store)


def snapshot(d):
    out = {}
    for name in sorted(os.listdir(d)):
        p = os.path.join(d, name)
        if os.path.isdir(p) and not os.path.islink(p):
            continue  # side directory holding the real file behind a symbolic link / the second hard link
        st = os.stat(p)
        with open(p, "rb") as f:
            out[name] = (f.read(), st.st_mtime_ns, st.st_ino)
    return out


def setup_dir(r, desc, old_bytes):
    d = tempfile.mkdtemp(prefix="vmon-c11-")
    base = os.path.join(d, "target.dat")
    if desc.get("leftover"):
        # a staging file left by a writer that was killed earlier (longer than most values): it must not leak into the new value, and a
        # write that fails by exception leaves no staging file behind - this one included
        with open(base + ".STAGING", "wb") as f:
            f.write(b"LEFTOVER-OF-A-KILLED-WRITER " * 40)
    if desc["present"]:
        link = desc.get("link")
        real = base
        if link == "symlink":
            # the data lives outside the watched directory; target.dat is a symbolic link to it
            side = os.path.join(d, "side")
            os.mkdir(side)
            real = os.path.join(side, "real.dat")
        with open(real, "wb") as f:
            f.write(old_bytes)
        t = 1_600_000_000 + r.randint(0, 10**6)
        os.utime(real, (t, t))
        if link == "symlink":
            os.symlink(real, base)
        elif link == "hardlink":
            side = os.path.join(d, "side")
            os.mkdir(side)
            os.link(base, os.path.join(side, "other-name.dat"))
    return d, base


def verdict(desc, d, before, new_bytes, raised, returned, k, opname, fault, after_kill=False):
    """Filesystem oracle. returns (problem text or None, mechanism)."""
    after = snapshot(d)
    tgt = "target.dat"
    # (a leftover of an earlier killed writer that this write never touched - same bytes, mtime and inode - is not something THIS write left behind)
    stag = [n for n in after if n != tgt and after[n] != before.get(n)]
    old = before.get(tgt)
    cur = after.get(tgt)
    where = f"fault {fault} at operation {k} ({opname})"
    if returned:
        if cur is None or cur[0] != new_bytes:
            return f"write returned normally but the target does not hold the complete new value ({where})", "atomicity"
        if stag:
            return f"write returned normally but left {stag} behind", "staging-left"
        return None, None
    # failed or killed
    if cur is None:
        if old is not None:
            return f"{where}: the target disappeared", "atomicity"
    else:
        is_old = old is not None and cur[0] == old[0]
        is_new = cur[0] == new_bytes
        if not (is_old or is_new):
            return f"{where}: target holds {len(cur[0])} bytes that are neither the complete previous value ({len(old[0]) if old else 'absent'}) nor the complete new value ({len(new_bytes)})", "atomicity"
        if is_old and not is_new and (cur[1] != old[1] or cur[2] != old[2]):
            return f"{where}: the old value is in place but the file's mtime/inode changed", "mtime"
        if old is None and not is_new:
            return f"{where}: target was absent and now holds a value that is not the complete new value", "atomicity"
    if raised and stag:
        mech = "staging-left-after-failed-rename" if opname == "replace" else "staging-left"
        return f"{where}: the write failed by exception but left {stag} behind", mech
    return None, None


def later_ops_ok(desc, path, r):
    """After a kill a leftover staging file must not disturb later writes / reads."""
    import uberjob.stores as st

    d = os.path.dirname(str(path))
    s = st.TextFileStore(path)
    try:
        s.write("after-kill")
        got = s.read()
    except BaseException as e:
        return f"a later ordinary write/read after a killed write failed with {e!r} (directory: {sorted(os.listdir(d))})"
    if got != "after-kill":
        return "a later ordinary write/read after a killed write did not round-trip"
    left = [n for n in os.listdir(d) if n.endswith(".STAGING")]
    if left:
        return f"a later successful write left staging files behind: {left}"
    if s.get_modified_time() is None:
        return "get_modified_time() is None after the later write"
    return None


def run_readonly_kill(desc):
    import uberjob.stores as st  # noqa (everything is imported before privileges are dropped)
    import encodings.utf_8  # noqa

    r = random.Random(desc["seed"])
    value, _ = make_value(desc["store"], desc["value"], r)
    old_bytes = b"OLD-VALUE-" + bytes(r.getrandbits(8) for _ in range(r.randint(0, 40)))
    UID = 65534
    res = {"status": "ok", "counters": {"readonly_kill_cases": 1, "readonly_kill_points": 0, "after_kill_followups": 0}, "sets": {"stores": [desc["store"]]}, "nontrivial": True,
           "sig": f"readonly_kill|{desc['store']}|{desc['path']}|{desc['value']}|{desc['filemode']}"}
    if os.geteuid() != 0:
        res["counters"]["readonly_kill_not_root"] = 1
        res["nontrivial"] = False
        return res
    # the operations of a clean write, to know where it can be killed
    d0 = tempfile.mkdtemp(prefix="vmon-c11k-")
    try:
        plan0 = fsfault.Plan()
        p0 = os.path.join(d0, "target.dat")
        with fsfault.Shim(plan0, d0):
            writer(desc["store"], p0 if desc["path"] == "str" else pathlib.Path(p0))(value)
        ops = list(plan0.ops)
    finally:
        shutil.rmtree(d0, ignore_errors=True)
    bad = mech = None
    K = len(ops)
    ks = sorted(set(range(1, min(K, 2) + 1)) | set(range(max(1, K - 4), K + 1)) | {r.randint(1, K) for _ in range(4)})
    for k in ks:
        opname = ops[k - 1].split(":")[0]
        d = tempfile.mkdtemp(prefix="vmon-c11k-")
        try:
            os.chmod(d, 0o777)
            base = os.path.join(d, "target.dat")
            with open(base, "wb") as f:
                f.write(old_bytes)
            os.chown(base, UID, UID)
            os.chmod(base, desc["filemode"])
            if desc.get("locked_dir"):
                os.chmod(base, 0o644)
                os.chmod(d, 0o555)
            path = base if desc["path"] == "str" else pathlib.Path(base)
            plan = fsfault.Plan(k=k, action="exit")
            pid = os.fork()
            if pid == 0:
                try:
                    try:
                        os.setgid(UID)
                        os.setuid(UID)
                        os.listdir(d)
                        with open(base, "rb"):
                            pass
                    except OSError:
                        os._exit(99)  # privileges cannot be dropped here, or the scratch directory is out of reach for an ordinary user
                    with fsfault.Shim(plan, d):
                        try:
                            writer(desc["store"], path)(value)
                        except BaseException:
                            pass
                finally:
                    os._exit(0)
            _, status = os.waitpid(pid, 0)
            if os.WIFEXITED(status) and os.WEXITSTATUS(status) == 99:
                res["counters"]["readonly_kill_unprivileged_user_unavailable"] = 1
                res["nontrivial"] = False
                return res
            if desc.get("locked_dir"):
                # (the write cannot succeed; whether and where it died does not matter) the directory is handed back before the follow-up write
                res["counters"]["locked_directory_points"] = res["counters"].get("locked_directory_points", 0) + 1
                os.chmod(d, 0o777)
                with open(base, "rb") as f:
                    now = f.read()
                if now != old_bytes:
                    bad, mech = (f"an ordinary user's write into a directory he may not change (mode 555; the existing target itself is writable for him), killed at file operation {k}: "
                                 f"the target holds {len(now)} bytes that are not the complete previous value ({len(old_bytes)} bytes) - nothing can be staged there, so nothing may be written"), "atomicity"
                    break
            elif not (os.WIFEXITED(status) and os.WEXITSTATUS(status) == 137):
                return {"status": "inconclusive", "detail": f"[readonly_kill] the kill at operation {k} ({opname}) was never reached (child status {status})"}
            res["counters"]["readonly_kill_points"] += 1
            with open(base, "rb") as f:
                now = f.read()
            if now != old_bytes and opname != "replace":
                bad, mech = f"killed at operation {k} ({opname}) of a write over a read-only target: the target no longer holds the complete previous value", "atomicity"
                break
            rfd, wfd = os.pipe()
            pid = os.fork()
            if pid == 0:
                code = 0
                try:
                    os.close(rfd)
                    os.setgid(UID)
                    os.setuid(UID)
                    msg = later_ops_ok(desc, path, r)
                    os.write(wfd, (msg or "").encode()[:900])
                except BaseException as e:  # noqa
                    os.write(wfd, f"harness error {e!r}".encode()[:900])
                    code = 4
                finally:
                    os._exit(code)
            os.close(wfd)
            chunks = []
            while True:
                b = os.read(rfd, 4096)
                if not b:
                    break
                chunks.append(b)
            os.close(rfd)
            os.waitpid(pid, 0)
            msg = b"".join(chunks).decode(errors="replace")
            res["counters"]["after_kill_followups"] += 1
            if msg.startswith("harness error"):
                return {"status": "inconclusive", "detail": f"[readonly_kill] {msg}"}
            if msg:
                bad, mech = (f"an ordinary user (uid {UID}) whose target is read-only (mode {desc['filemode']:o}) was killed at operation {k} ({opname}) of a write; "
                             f"the same user's next write: {msg}"), "leftover-disturbs"
                break
        finally:
            shutil.rmtree(d, ignore_errors=True)
    if bad:
        res.update(status="violation", detail=f"[{desc['store']} {desc['path']} readonly_kill] {bad}", mechanism=mech)
    return res


def run_case(desc):
    if desc["mode"] == "strace":
        return run_strace(desc)
    if desc["mode"] == "readonly_kill":
        return run_readonly_kill(desc)
    if desc["mode"] == "siblings":
        from vmon.checks import c08_file

        res = c08_file.run_siblings(desc)
        res.setdefault("sets", {})["stores"] = []
        return res
    r = random.Random(desc["seed"])
    BADOPEN[0] = desc["value"] == "badopen" and desc["store"] in ("json", "text", "staged_write")
    value, ser_fails = make_value(desc["store"], desc["value"], r)
    old_bytes = b"OLD-VALUE-" + bytes(r.getrandbits(8) for _ in range(r.randint(0, 40)))
    counters = {"writes_generated": 1, "fault_points": 0, "exception_faults": 0, "exit_faults": 0, "clean_writes_checked": 0,
                "serialisation_failures_checked": 0, "after_kill_followups": 0}
    opnames = set()
    bad = mech = None
    sample = None
    # counted clean write
    d, base = setup_dir(r, desc, old_bytes)
    try:
        path = base if desc["path"] == "str" else pathlib.Path(base)
        before = snapshot(d)
        plan = fsfault.Plan()
        exc = None
        with fsfault.Shim(plan, d):
            try:
                writer(desc["store"], path)(value)
            except BaseException as e:
                exc = e
        ops = list(plan.ops)
        K = len(ops)
        if ser_fails:
            counters["serialisation_failures_checked"] = 1
            if exc is None:
                return {"status": "inconclusive", "detail": f"value expected to fail serialisation was written: {desc}"}
            new_bytes = b"\x00never"
            bad, mech = verdict(desc, d, before, new_bytes, True, False, 0, "serialisation", type(exc).__name__)
        else:
            if exc is not None:
                return {"status": "inconclusive", "detail": f"clean write raised {exc!r}"}
            after = snapshot(d)
            new_bytes = after.get("target.dat", (None,))[0]
            counters["clean_writes_checked"] = 1
            # "complete new value" = what a write of the same value to a fresh path produces (independent of what was there before)
            d2 = tempfile.mkdtemp(prefix="vmon-c11r-")
            try:
                p2 = os.path.join(d2, "target.dat")
                writer(desc["store"], p2 if desc["path"] == "str" else pathlib.Path(p2))(value)
                with open(p2, "rb") as f:
                    ref_bytes = f.read()
            finally:
                shutil.rmtree(d2, ignore_errors=True)
            if new_bytes is None:
                bad, mech = "clean write left no target file", "atomicity"
            elif [n for n in after if n != "target.dat"]:
                bad, mech = f"clean write left extra files {sorted(after)}", "staging-left"
            elif desc["store"] == "json" and _json_differs(new_bytes, value):
                bad, mech = (f"a JSON write that returned normally left a file that does not parse back to the value written: {new_bytes[:80]!r}..."), "atomicity"
            elif new_bytes != ref_bytes:
                bad, mech = (f"a write that returned normally over an existing file left {len(new_bytes)} bytes ({new_bytes[:30]!r}...), but the complete new value "
                             f"(same write to a fresh path) is {len(ref_bytes)} bytes: the previous content was not replaced"), "atomicity"
            elif desc["present"] and before["target.dat"][1] == after["target.dat"][1] and before["target.dat"][2] == after["target.dat"][2] and new_bytes != before["target.dat"][0]:
                pass
    finally:
        shutil.rmtree(d, ignore_errors=True)
    sample = {"desc": desc, "operations": [o for o in ops[:12]] + (["..."] if K > 12 else []), "K": K}
    hit = 0
    if bad is None:
        ks = list(range(1, K + 1))
        for k in ks:
            opname = ops[k - 1].split(":")[0]
            if opname == "remove" and ser_fails:
                continue  # cleanup path of a failing serialisation: a second fault, not enumerated (a removal in a write that SUCCEEDS is a fault point like any other)
            faults = [("raise", e) for e in ERRS] + [("raise", SUBCLASS_ERRS[(k + desc["seed"]) % len(SUBCLASS_ERRS)]), ("raise", errno.ENOENT)] + [("exit", 0), ("raise_base", r.choice([0, 1]))]
            if opname == "replace":
                faults.append(("raise", errno.EXDEV))
            if opname == "replace":
                # two faults: the rename cannot be done (and never will), and the process dies at one of the next few file operations -
                # whatever a fallback does in between, the previous value survives
                faults.extend(("sticky_then_exit", j) for j in range(1, 7))
                faults.extend(("sticky_then_exit_after", j) for j in range(1, 5))  # ... or dies right AFTER that operation took effect
            if opname in ("replace", "open", "write"):
                # the same kind of operation keeps failing afterwards (renames are not possible on this file system, the device stays full):
                # whatever the code tries next, the previous value must survive
                faults.append(("raise_sticky", errno.EXDEV if opname == "replace" else errno.ENOSPC))
            if K > 60 and k % 7 and opname == "write":
                faults = [("raise", r.choice(ERRS)), ("exit", 0), ("raise_base", 0)]
            for action, err in faults:
                d, base = setup_dir(r, desc, old_bytes)
                try:
                    path = base if desc["path"] == "str" else pathlib.Path(base)
                    before = snapshot(d)
                    sticky = action == "raise_sticky"
                    die_after = None
                    after_effect = action == "sticky_then_exit_after"
                    if action in ("sticky_then_exit", "sticky_then_exit_after"):
                        die_after, err, action, sticky = err, errno.EXDEV, "exit2", True
                        counters["rename_fails_then_death_faults"] = counters.get("rename_fails_then_death_faults", 0) + 1
                    if sticky and action != "exit2":
                        action = "raise"
                        counters["sticky_faults"] = counters.get("sticky_faults", 0) + 1
                    plan = fsfault.Plan(k=k, action="raise" if action == "exit2" else action, err=err, sticky=sticky)
                    if die_after is not None and after_effect:
                        plan.die_after = k + die_after
                    elif die_after is not None:
                        plan.die_at = k + die_after
                    raised = returned = False
                    fname = (errno.errorcode.get(err, "exit") + (" (and at every later operation of that kind)" if sticky else "")) if action == "raise" else ("os._exit" if action == "exit" else (f"EXDEV at every rename, then os._exit {'right after' if after_effect else 'at'} the file operation {die_after} step(s) later" if action == "exit2" else ("KeyboardInterrupt" if err == 1 else "BaseException")))
                    if action in ("raise", "raise_base"):
                        with fsfault.Shim(plan, d):
                            try:
                                writer(desc["store"], path)(value)
                                returned = True
                            except BaseException as e:
                                raised = True
                        counters["exception_faults"] += 1
                        fired = plan.fired is not None
                    else:
                        pid = os.fork()
                        if pid == 0:
                            try:
                                with fsfault.Shim(plan, d):
                                    try:
                                        writer(desc["store"], path)(value)
                                    except BaseException:
                                        pass
                            finally:
                                os._exit(0)
                        _, status = os.waitpid(pid, 0)
                        fired = os.WIFEXITED(status) and os.WEXITSTATUS(status) == 137
                        if action == "exit2":
                            # (the rename fault fired in the child; whether the process then lived long enough to reach the fatal operation
                            # depends on what the code does after a failed rename - both outcomes are judged the same way)
                            counters["rename_fails_then_death_reached"] = counters.get("rename_fails_then_death_reached", 0) + int(fired)
                            fired = True
                        counters["exit_faults"] += 1
                    counters["fault_points"] += 1
                    if fired:
                        hit += 1
                        opnames.add(opname)
                    elif not ser_fails:
                        bad, mech = f"fault at operation {k} ({opname}) was never reached although the clean write performs {K} operations", "harness"
                        return {"status": "inconclusive", "detail": bad}
                    if ser_fails and not fired:
                        returned = False
                        raised = True
                    bad, mech = verdict(desc, d, before, new_bytes, raised and action in ("raise", "raise_base"), returned, k, opname, fname)
                    if bad is None and action == "exit" and fired:
                        msg = later_ops_ok(desc, path, r)
                        counters["after_kill_followups"] += 1
                        if msg:
                            bad, mech = f"after os._exit at operation {k} ({opname}): {msg}", "leftover-disturbs"
                    if bad:
                        sample["failing"] = {"k": k, "op": opname, "fault": fname, "listing_after": sorted(os.listdir(d))}
                finally:
                    shutil.rmtree(d, ignore_errors=True)
                if bad:
                    break
            if bad:
                break
    if bad is None and not ser_fails and new_bytes is not None and len(new_bytes) >= 2:
        # a file-size limit (quota / disk filling up) part-way through the value: the kernel accepts only the first L bytes
        # (RLIMIT_FSIZE with SIGXFSZ ignored: a short write, then EFBIG). Forked child, real kernel behaviour, no shim.
        import resource
        import signal

        for L in sorted({1, len(new_bytes) // 2, len(new_bytes) - 1, r.randint(1, len(new_bytes) - 1)}):
            d, base = setup_dir(r, desc, old_bytes)
            try:
                path = base if desc["path"] == "str" else pathlib.Path(base)
                before = snapshot(d)
                pid = os.fork()
                if pid == 0:
                    code = 3
                    try:
                        signal.signal(signal.SIGXFSZ, signal.SIG_IGN)
                        resource.setrlimit(resource.RLIMIT_FSIZE, (L, L))
                        writer(desc["store"], path)(value)
                        code = 0
                    except BaseException:
                        code = 3
                    finally:
                        os._exit(code)
                _, status = os.waitpid(pid, 0)
                rc = os.WEXITSTATUS(status) if os.WIFEXITED(status) else -1
                counters["fsize_limit_faults"] = counters.get("fsize_limit_faults", 0) + 1
                bad, mech = verdict(desc, d, before, new_bytes, rc == 3, rc == 0, 0, "write", f"file size limit of {L} bytes (value needs {len(new_bytes)})")
                if bad:
                    sample["failing"] = {"fault": f"RLIMIT_FSIZE={L}", "child_exit": rc, "listing_after": sorted(os.listdir(d))}
            finally:
                shutil.rmtree(d, ignore_errors=True)
            if bad:
                break
    counters["fault_points_hit"] = hit
    res = {"status": "ok", "counters": counters, "sets": {"operations_faulted": sorted(opnames), "stores": [desc["store"]]},
           "nontrivial": desc["present"] and K >= 3 and hit > 0,
           "sig": f"{desc['store']}|{desc['path']}|{desc['present']}|{desc['value']}|{K}"}
    if desc["seed"] % 40 == 0 or bad:
        res["sample"] = sample
    if bad:
        res.update(status="violation", detail=f"[{desc['store']} {desc['path']} present={desc['present']} value={desc['value']}] {bad}",
                   mechanism=mech, witness=sample)
    return res


STRACE_SCRIPT = r'''
import sys, json, pathlib
sys.path.insert(0, sys.argv[1])
import uberjob.stores as st
store, path, kind = sys.argv[2], sys.argv[3], sys.argv[4]
if sys.argv[5] == "pathlib":
    path = pathlib.Path(path)
value = {"json": {"a": list(range(2000))}, "pickle": [bytes(300000), 1], "text": "line\n" * 60000, "binary": bytes(300000), "touch": None}[store]
cls = {"json": st.JsonFileStore, "pickle": st.PickleFileStore, "text": st.TextFileStore, "binary": st.BinaryFileStore, "touch": st.TouchFileStore}[store]
try:
    cls(path).write(value)
    print("RETURNED")
except BaseException as e:
    print("RAISED", type(e).__name__)
'''


def run_strace(desc):
    r = random.Random(desc["seed"])
    store = desc["store"] if desc["store"] in ("json", "pickle", "text", "binary", "touch") else "text"
    if shutil.which("strace") is None:
        return {"status": "ok", "counters": {"strace_unavailable": 1}, "nontrivial": False}
    old_bytes = b"OLD-" + bytes(r.getrandbits(8) for _ in range(20))
    d0 = tempfile.mkdtemp(prefix="vmon-c11s-")
    script = os.path.join(d0, "w.py")
    with open(script, "w") as f:
        f.write(STRACE_SCRIPT)
    counters = {"strace_cases": 1, "strace_runs": 0, "strace_faults_hit": 0}
    syscalls_hit = set()
    bad = mech = None
    sample = {"desc": desc}
    try:
        def one(inject):
            d, base = setup_dir(r, desc, old_bytes)
            before = snapshot(d)
            cmd = ["strace", "-f", "-qq", "-o", os.path.join(d0, "trace.txt"), "-P", base, "-P", base + ".STAGING",
                   "-e", "trace=openat,write,close,rename,renameat,renameat2,unlink,unlinkat"]
            if inject:
                cmd += ["-e", "inject=" + inject]
            cmd += [env.PYTHON, "-B", script, env.SRC, store, base, "x", desc["path"]]
            p = subprocess.run(cmd, capture_output=True, text=True, timeout=120)
            counters["strace_runs"] += 1
            return d, before, p

        # clean run: learn the new bytes and how many syscalls of each kind touch the two paths
        d, before, p = one(None)
        try:
            if "RETURNED" not in p.stdout:
                return {"status": "inconclusive", "detail": f"strace clean run failed: rc={p.returncode} {p.stderr[-300:]}"}
            new_bytes = snapshot(d)["target.dat"][0]
            trace = open(os.path.join(d0, "trace.txt")).read().splitlines()
        finally:
            shutil.rmtree(d, ignore_errors=True)
        counts = {}
        for line in trace:
            for sc in ("openat", "write", "close", "rename"):
                if f" {sc}(" in " " + line.split(None, 1)[-1] or line.split(None, 1)[-1].startswith(sc + "("):
                    counts[sc] = counts.get(sc, 0) + 1
        sample["syscalls_on_paths"] = counts
        plan = []
        for sc, n in counts.items():
            ks = list(range(1, n + 1))
            if len(ks) > 6:
                ks = sorted(set([1, 2, n - 1, n] + r.sample(ks, 3)))
            for k in ks:
                for kind in ("error=EIO", "error=ENOSPC", "signal=KILL"):
                    if sc == "close" and kind == "error=ENOSPC":
                        continue
                    plan.append((sc, k, kind))
        r.shuffle(plan)
        plan = plan[: 14 if desc.get("tier") != "thorough" else 60]
        for sc, k, kind in plan:
            d, before, p = one(f"{sc}:{kind}:when={k}")
            try:
                killed = p.returncode != 0 and "RAISED" not in p.stdout and "RETURNED" not in p.stdout
                returned = "RETURNED" in p.stdout
                raised = "RAISED" in p.stdout
                if raised or killed:
                    counters["strace_faults_hit"] += 1
                    syscalls_hit.add(sc)
                opname = {"rename": "replace"}.get(sc, sc)
                bad, mech = verdict(desc, d, before, new_bytes, raised, returned, k, opname, f"{sc}:{kind}")
                if bad is None and killed:
                    msg = later_ops_ok(desc, os.path.join(d, "target.dat"), r)
                    if msg:
                        bad, mech = f"after SIGKILL at {sc} #{k}: {msg}", "leftover-disturbs"
                if bad:
                    sample["failing"] = {"syscall": sc, "k": k, "fault": kind, "stdout": p.stdout[-200:], "listing_after": sorted(os.listdir(d))}
                    break
            finally:
                shutil.rmtree(d, ignore_errors=True)
    finally:
        shutil.rmtree(d0, ignore_errors=True)
    res = {"status": "ok", "counters": counters, "sets": {"syscalls_faulted": sorted(syscalls_hit), "stores": [store]},
           "nontrivial": counters["strace_faults_hit"] > 0, "sig": f"strace|{store}|{desc['path']}|{desc['present']}|{desc['seed'] % 1000}"}
    if bad:
        res.update(status="violation", detail=f"[strace {store} present={desc['present']}] {bad}", mechanism=mech, witness=sample)
    elif desc["seed"] % 3 == 0:
        res["sample"] = sample
    return res


def finalize(agg, tier):
    reasons = []
    need = {"open", "write", "close", "replace"}
    got = agg.sets.get("operations_faulted", set())
    if not need <= got:
        reasons.append(f"file operations never faulted: {sorted(need - got)}")
    if agg.counters["fault_points_hit"] < agg.counters["fault_points"] * 0.9:
        reasons.append("fewer than 90% of the enumerated fault points were reached")
    if len(agg.sets.get("stores", ())) < 7:
        reasons.append("not every store class / helper was exercised")
    return reasons


def coverage_extra(agg, tier):
    return {"exhaustive": False, "exhaustive_per_case": True,
            "explanation": "every file-operation index of each generated write was faulted; the writes are sampled"}
