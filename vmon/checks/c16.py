"""C16 - intermediate results are released as soon as their last consumer has finished."""
import gc
import hashlib
import random
import threading

from vmon import abort, env, ir as irmod, plainrun, quiesce

ID = "C16"
LEVEL = "exploration"
RULE = (
    "cases = seeded successful runs whose call results are weak-referenceable objects; liveness is checked after "
    "gc.collect() (i) 'w1': one worker, at every call start, against every result whose consumers have all ended; (ii) 'anc': "
    "several workers, at every call start, against results whose consumers are all ancestors of the starting call (hence fully "
    "processed); (iii) 'wave': several workers, at every logically quiescent state of the wave driver, against all results "
    "whose consumers have ended; (iv) after run returned and its value was dropped, against everything. Consumers are "
    "followed through implicit gather nodes (a container result legitimately holds its members); results that are part of "
    "the output are exempt until the end. Shapes: test_scheduler's seven families + random DAGs + gathers + keyword "
    "consumers + plain-dependency-only successors. non-trivial = at least one result with a finished consumer was checked "
    "before the run ended; distinct by (plan, W, scheduler, mode)"
)
ASSUMPTIONS = ["the harness keeps only ids and weak references to results",
               "failing runs: only the FIRST error (which run re-raises at the end) may pin its call's arguments through its traceback",
               "further modes: 'obs' (at the observer's completed notification, any worker count), 'fail2' (several failing Python consumers, "
               "max_errors=None), 'retry' (flaky consumers that succeed on a later attempt), 'failb' (failing C-function consumer), 'registry', "
               "'mounted' (stored values behind MountedStore(PickleFileStore) and plain file stores, consumed / only depended upon: what was written and what "
               "was read back is dead at the next call boundary and after the run, the registry and its stores still alive)"]


def gen_cases(tier, seed):
    n = 1000 if tier == "quick" else 15000
    out = []
    for i in range(n):
        s = env.seed_for(seed, ID, tier, i)
        r = random.Random(env.seed_for(s, "descriptor"))  # independent of the stream run_case derives from the same seed
        mode = r.choice(["w1", "anc", "wave", "registry", "failb", "obs", "fail2", "retry"])
        W = 1 if mode in ("w1", "registry", "failb", "fail2", "retry") else r.choice([2, 4, 8])
        extra = {}
        if mode == "obs":
            W = r.choice([1, 2, 4])
        elif mode == "fail2":
            extra = {"faults": {"p": r.choice([0.25, 0.4]), "kinds": r.choice([["exc", "value"], ["exc", "base", "sysexit"], ["base", "kbi"]])}, "max_errors": None, "force_out": "sinks"}
        elif mode == "retry":
            n_att = r.choice([2, 3, 4])
            extra = {"retry": n_att, "faults": {"p": r.choice([0.3, 0.6]), "kinds": ["exc", "value"], "flaky": True, "max_flaky": n_att - 1}}
        out.append({**extra, "seed": s, "mode": mode, "n": r.randint(2, 22 if tier == "quick" else 50), "W": W, "sched": r.choice(["default", "random"]),
                    "family": r.choice(["chain", "join", "diamond", "zipper", "crisscross", "tree", "layers", "random", "random"]),
                    "delays": "none" if mode == "wave" else "mixed",
                    "cfg": {"p_unpack": 0.0, "p_opq": 0.0, "p_lit": 0.1, "p_cont": 0.3, "p_hub": 0.2,
                            "out": extra.pop("force_out", None) or r.choice(["sinks", "node", "node", "struct", "none"])}})
    for i in range(2 if tier == "quick" else 10):
        out.append({"seed": env.seed_for(seed, ID, tier, "many_failures", i), "mode": "many_failures", "n": 150, "W": 1, "sched": "default"})
    # stored values behind the bundled stores that uberjob itself implements on top of others (MountedStore over a file store): what was written
    # is released once the write has finished, whether or not anything reads the store in this run
    for i in range(40 if tier == "quick" else 600):
        out.append({"seed": env.seed_for(seed, ID, tier, "mounted", i), "mode": "mounted", "n": 0, "W": 1, "sched": "default"})
    # several consumers of one result finish at the same time; the worker of the first is held at every instruction of its release bookkeeping
    # (run_physical and the graph runner) while the others complete (vmon/preempt.py): "whatever the worker count or scheduler"
    combos = [(nc, W, sc, tw) for nc in (2, 3) for W in (nc, nc + 2) for sc in ("default", "random") for tw in (False, True)]
    if tier == "quick":
        combos = [c_ for j, c_ in enumerate(combos) if j % 4 == seed % 4]
    for nc, W, sc, tw in combos:
        out.append({"seed": env.seed_for(seed, ID, tier, "release", nc, W, sc, tw), "mode": "preempt_release", "consumers": nc, "W": W, "sched": sc, "twice": tw, "n": nc + 2})
    return out


def run_many_failures(desc):
    """150 producer -> failing consumer pairs, one worker, max_errors=None, the bundled CONSOLE display as observer. The display keeps the
    first 128 exceptions by design (they pin their calls' inputs); every failure beyond that cap has finished for good and its input must be
    released when the next pair starts."""
    import io
    import sys

    import uberjob
    import uberjob.progress as up
    import weakref

    class Obj:
        __slots__ = ("i", "__weakref__")

        def __init__(self, i):
            self.i = i

    refs = {}
    state = {"bad": None, "checked": 0}

    def check_released(i):
            gc.collect()
            # one worker: every consumer that has started has also finished (failed) by now
            for rank, j in enumerate(list(failed_order)):
                if rank >= 135:
                    wr = refs[j]
                    state["checked"] += 1
                    if wr() is not None and state["bad"] is None:
                        state["bad"] = (f"start of call #{i}: the input of failing call #{j} (failure number {rank + 1}, beyond the display's cap of 128 stored "
                                        f"exceptions) is still alive; held by {held_by(wr())}")

    def producer(i):
        def f():
            check_released(i)
            o = Obj(i)
            refs[i] = weakref.ref(o)
            return o
        f.__name__ = f.__qualname__ = "produce"
        return f

    failed_order = []

    def consumer(x):
        check_released(x.i)
        failed_order.append(x.i)
        raise ValueError(f"consumer of #{x.i} fails")

    plan = uberjob.Plan()
    outs = []
    prev = None
    for i in range(desc["n"]):
        p_ = plan.call(producer(i))
        c_ = plan.call(consumer, p_)
        if prev is not None:
            plan.add_dependency(prev, p_)  # producer i+1 only after consumer i was attempted ... (a failed dependency would block it:)
        outs.append(c_)
        prev = p_
    old = sys.stdout
    sys.stdout = io.StringIO()
    try:
        try:
            uberjob.run(plan, output=outs, max_workers=1, max_errors=None,
                        progress=up.Progress(lambda: up.ConsoleProgressObserver(initial_update_delay=0.05, min_update_interval=0.05, max_update_interval=0.2)))
        except uberjob.CallError:
            pass
    finally:
        sys.stdout = old
    res = {"status": "ok", "counters": {"many_failure_runs": 1, "results_checked_before_end": state["checked"], "runs": 1, "mode_many_failures": 1},
           "nontrivial": state["checked"] > 0, "sig": f"many_failures|{desc['seed'] % 1000}"}
    if state["bad"]:
        res.update(status="violation", detail=state["bad"], mechanism="retained-result")
    return res


def held_by(obj):
    holders = []
    try:
        for rf in gc.get_referrers(obj)[:6]:
            holders.append(type(rf).__name__ + ":" + repr(rf)[:80])
            for rf2 in gc.get_referrers(rf)[:3]:
                holders.append("  <- " + type(rf2).__name__ + ":" + repr(rf2)[:80])
    except Exception:
        pass
    return holders[:8]


def run_registry(desc):
    """Bare-node output + registry: the run goes on (writes of other out-of-date stored values) after the output call has
    finished; the output call's arguments are not part of the output and must be released. One worker: at every call start
    everything that ran before is fully processed."""
    from vmon import history, regmodel

    rng = random.Random(desc["seed"])
    rp = regmodel.gen_regplan(rng, max(4, desc["n"]), cfg={"p_store": 0.4, "p_alias": 0.0})
    S = regmodel.Session(rp, desc["seed"])
    H = S.H
    H.record_args = False
    H.track_results = True
    plain = [i for i, r_ in rp.role.items() if r_ == "plain" and S.ir.nodes[i].args]
    if not plain:
        return {"status": "ok", "counters": {"registry_cases_without_candidate": 1}, "nontrivial": False}
    y = rng.choice(plain)
    out_ids = regmodel.Bare(y)
    exp = S.expect(out_ids, None)
    state = {"bad": None, "checked": 0, "checkpoints": 0}

    def pre(nid, att):
        gc.collect()
        state["checkpoints"] += 1
        with H.lock:
            done = set(H.ended_ok)
            refs = dict(H.result_refs)
        for p, wr in refs.items():
            if p == y or rp.role[p] != "plain" or p not in done:
                continue
            cons = {m for m in S.argsucc[p] if m in exp.execs}
            if not cons <= done:
                continue
            state["checked"] += 1
            obj = wr()
            if obj is not None and state["bad"] is None:
                state["bad"] = (f"start of n{nid}: result of unstored n{p} is still alive although its consumers {sorted(cons)} have finished "
                                f"(output is the bare node n{y}); held by {held_by(obj)}")
            del obj

    H.pre = pre
    res, exc = S.run(out_ids, W=1, sched=desc["sched"])
    H.pre = None
    if exc is not None:
        return {"status": "inconclusive", "detail": f"registry run raised {exc!r}"}
    r_ = {"status": "ok", "counters": {"runs": 1, "mode_registry": 1, "liveness_checkpoints": state["checkpoints"], "results_checked_before_end": state["checked"]},
          "nontrivial": state["checked"] > 0, "sig": hashlib.sha1(("\n".join(S.describe(100)) + f"|reg|{y}").encode()).hexdigest()[:16]}
    if state["bad"]:
        r_.update(status="violation", detail=state["bad"], mechanism="retained-result", witness={"plan": S.describe(100), "output": f"bare n{y}", "history": H.compact_history(200)})
    return r_


class Payload:
    """Picklable, weak-referenceable result for the file-backed stores."""

    def __init__(self, tag):
        self.tag = tag


def run_mounted(desc):
    """A chain of stored values behind MountedStore(PickleFileStore) / plain file stores; each is consumed by a call, or only depended upon, or
    neither; a probe call after each checks (after gc.collect()) that what was built AND what was read back earlier is dead once its consumers ended."""
    import os
    import shutil
    import tempfile
    import weakref

    import uberjob
    from uberjob.stores import MountedStore, PickleFileStore, get_modified_time

    class DirMounted(MountedStore):
        def __init__(self, remote):
            super().__init__(PickleFileStore)
            self.remote = remote

        def copy_from_local(self, local_path):
            shutil.copyfile(local_path, self.remote)

        def copy_to_local(self, local_path):
            shutil.copyfile(self.remote, local_path)

        def get_modified_time(self):
            return get_modified_time(self.remote)

    rng = random.Random(desc["seed"])
    tmp = tempfile.mkdtemp(prefix="vmon-c16-")
    refs = {}  # tag -> weakrefs of everything built or received under that tag
    state = {"bad": None, "checked": 0, "checkpoints": 0}
    lock = threading.Lock()

    def make(tag):
        v = Payload(tag)
        with lock:
            refs.setdefault(tag, []).append(weakref.ref(v))
        return v

    def consume(tag, v):
        with lock:
            refs.setdefault(tag, []).append(weakref.ref(v))  # the read-back object
        return None

    def probe(label, dead):
        gc.collect()
        state["checkpoints"] += 1
        for tag in dead:
            for r in refs.get(tag, ()):
                state["checked"] += 1
                if r() is not None and not state["bad"]:
                    state["bad"] = (f"at the start of {label}: a value of stored node {tag} (built, or read back from its store) is still alive although every "
                                    f"call that consumes it, and the write to its store, have finished")
        return None

    try:
        plan = uberjob.Plan()
        reg = uberjob.Registry()
        k = rng.randint(1, 5)
        prev = None
        done = []
        kinds = {}
        stores = []
        for j in range(k):
            tag = f"x{j}"
            x = plan.call(make, tag)
            if prev is not None:
                plan.add_dependency(prev, x)
            kind = rng.choice(["mounted", "mounted", "mounted", "pickle"])
            st = DirMounted(os.path.join(tmp, tag + ".pkl")) if kind == "mounted" else PickleFileStore(os.path.join(tmp, tag + ".pkl"))
            stores.append(st)
            reg.add(x, st)
            use = rng.choice(["dependency", "dependency", "consumed", "both"])
            kinds[f"mounted_{kind}_{use}"] = 1
            last = x
            if use in ("consumed", "both"):
                last = plan.call(consume, tag, x)
            done.append(tag)
            p = plan.call(probe, f"probe{j}", list(done))
            plan.add_dependency(last, p)
            if use in ("dependency", "both"):
                plan.add_dependency(x, p)
            prev = p
        W = rng.choice([1, 1, 3])
        sched = rng.choice(["default", "random"])
        out = rng.choice([None, prev])
        for round_ in range(rng.choice([1, 2])):
            # second round: everything is up to date; nothing is built, values that are consumed are read
            uberjob.run(plan, output=out, registry=reg, max_workers=W, scheduler=sched, progress=None)
            probe(f"the end of run {round_} (registry and stores still alive)", list(done))
            if state["bad"]:
                break
    except BaseException as exc:
        return {"status": "inconclusive", "detail": f"mounted-store run raised {exc!r}"}
    finally:
        shutil.rmtree(tmp, ignore_errors=True)
    r_ = {"status": "ok", "counters": {"runs": 1, "mode_mounted": 1, "liveness_checkpoints": state["checkpoints"],
                                       "mounted_values_checked": state["checked"], **kinds},
          "nontrivial": state["checked"] > 0, "sig": hashlib.sha1(f"mounted{k}{sorted(kinds)}{W}{sched}".encode()).hexdigest()[:16]}
    if state["bad"]:
        r_.update(status="violation", detail=state["bad"], mechanism="retained-result", witness={"stores": sorted(kinds), "W": W, "sched": sched})
    return r_


def run_case(desc):
    if desc["mode"] == "registry":
        return run_registry(desc)
    if desc["mode"] == "mounted":
        return run_mounted(desc)
    if desc["mode"] == "many_failures":
        return run_many_failures(desc)
    if desc["mode"] == "preempt_release":
        from vmon import preempt

        return preempt.enumerate_release(desc)
    rng = random.Random(desc["seed"])
    ir = irmod.gen_ir(rng, desc["n"], family=desc["family"], rich=True, cfg=desc["cfg"])
    for n in ir.nodes:
        if n.kind == "call" and n.fnkind != "val":
            n.fnkind = "val"  # weak-referenceable, contains nothing
    failb = None
    if desc["mode"] == "failb":
        # one consumer is the C function len() applied to a result that has no __len__: it finishes by raising, and no
        # Python frame of the plan pins its arguments. max_errors=None lets the run go on.
        cands = [n.id for n in ir.nodes if n.kind == "call"]
        p = rng.choice(cands)
        b = ir.add("call", fnkind="val", args=[irmod.ref(p)], fname="len", builtin=len)
        failb = b.id
        keep = [c for c in cands if c != p]
        ir.output = irmod.X("list", [irmod.ref(b.id)] + [irmod.ref(c) for c in rng.sample(keep, min(len(keep), 3))])
    calls = set(ir.harness_calls())
    preds = ir.preds()
    # arg-edge successors (through builtin nodes) that are harness calls
    argsucc = {n.id: set() for n in ir.nodes}
    for n in ir.nodes:
        for p in n.nav_refs():
            argsucc[p].add(n.id)

    def harness_consumers(p):
        out, st, seen = set(), list(argsucc[p]), set()
        while st:
            u = st.pop()
            if u in seen:
                continue
            seen.add(u)
            if u in calls:
                out.add(u)
            else:
                st.extend(argsucc[u])  # gather / item nodes: their result contains / aliases p
        return out

    hc = {c: harness_consumers(c) for c in calls}
    # results reachable from the output through containers are exempt until the end
    exempt = set()
    if ir.output is not None:
        st = list(ir.output.refs())
        while st:
            u = st.pop()
            if u in exempt:
                continue
            exempt.add(u)
            if u not in calls:
                st.extend(ir.nodes[u].nav_refs())
    needed = ir.needed() & calls
    anc = {c: (ir.ancestors([c], preds) - {c}) & calls for c in needed}
    state = {"bad": None, "checked": 0, "checkpoints": 0, "dead_early": 0}
    holder = {}

    def check(done, where):
        """done = set of fully processed calls."""
        H = holder["R"].H
        gc.collect()
        state["checkpoints"] += 1
        with H.lock:
            refs = dict(H.result_refs)
        for p, wr in refs.items():
            if p in exempt or p not in done:
                continue
            if not hc[p] <= done:
                continue
            state["checked"] += 1
            obj = wr()
            if obj is not None:
                if state["bad"] is None:
                    holders = []
                    try:
                        for rf in gc.get_referrers(obj)[:6]:
                            holders.append(type(rf).__name__ + ":" + repr(rf)[:80])
                            for rf2 in gc.get_referrers(rf)[:3]:
                                holders.append("  <- " + type(rf2).__name__ + ":" + repr(rf2)[:80])
                    except Exception:
                        pass
                    state["bad"] = (f"{where}: result of n{p} is still alive although every call that consumes it "
                                    f"({sorted(hc[p])[:6]}) has finished and been fully processed and it is not part of the output; held by {holders[:8]}")
                del obj
            else:
                state["dead_early"] += 1

    mode = desc["mode"]
    drv = None
    obs = None
    if mode == "failb":
        from vmon import recobserver

        obs = recobserver.RecObserver()

        def pre(nid, att):
            H = holder["R"].H
            with H.lock:
                done = set(H.ended_ok)
            with obs.lock:
                if any(t[2] == "failed" and t[4][-1:] == ("len",) for t in obs.trace):
                    done.add(failb)  # the failing consumer has been processed (its failure was reported before this call started)
            check(done, f"start of n{nid} (single worker, after the failure of the builtin consumer n{failb})" if failb in done else f"start of n{nid}")
    elif mode == "fail2":
        # several Python consumers raise (their frames hold their arguments), the run goes on (max_errors=None), nobody stores the
        # exceptions (progress=None): uberjob keeps the FIRST error until the end - its traceback legitimately pins that call's
        # arguments - but every later failed call has finished and must not stay reachable.
        def pre(nid, att):
            H = holder["R"].H
            with H.lock:
                done = set(H.ended_ok)
                raised = [e[2] for e in H.events if e[1] == "raise"]
            later_failures = set(raised[1:]) - set(raised[:1])
            check(done | later_failures, f"start of n{nid} (single worker; failed earlier: first n{raised[0] if raised else None}, later {sorted(later_failures)[:5]})")
    elif mode == "obs":
        # the observer's 'completed' notification for call c is issued by the worker that ran c: by then c has finished, so results
        # whose consumers have all been reported completed must be unreachable at that very moment (any worker count)
        from vmon import recobserver

        notified = set()
        chk_lock = threading.Lock()

        class LiveObs(recobserver.RecObserver):
            def increment_completed(self_, *, section, scope):
                recobserver.RecObserver.increment_completed(self_, section=section, scope=scope)
                if section != "run" or not str(scope[-1]).startswith("vmonfn."):
                    return
                H = holder["R"].H
                tid = threading.get_ident()
                with H.lock:
                    nid = next((e[2] for e in reversed(H.events) if e[3] == tid and e[1] == "end"), None)
                with chk_lock:
                    if nid is not None:
                        notified.add(nid)
                    check(set(notified), f"'completed' notification of n{nid} (W={desc['W']})")

        obs = LiveObs()
        pre = None
    elif mode in ("w1", "retry"):
        def pre(nid, att):
            H = holder["R"].H
            with H.lock:
                done = set(H.ended_ok)
            check(done, f"start of n{nid} (single worker{', attempt %d' % att if att > 1 else ''})")
    elif mode == "anc":
        def pre(nid, att):
            check(anc.get(nid, set()), f"start of n{nid}")
    else:
        if not quiesce.available():
            return {"status": "inconclusive", "detail": "quiescence detector unavailable"}

        def on_q(d, keys):
            R = holder.get("R")
            if R is None:
                return
            with R.H.lock:
                done = set(R.H.ended_ok)
            check(done, f"quiescent state (gated {sorted(keys)[:6]})")

        drv = quiesce.WaveDriver(random.Random(desc["seed"] ^ 5), on_quiescent=on_q,
                                 on_deadlock=lambda st: abort.abort_with({"status": "inconclusive", "detail": "deadlock seen in C16 wave run", "witness": {"stacks": st}}))

        def pre(nid, att):
            drv.gate(nid)
        drv.start()
    if mode == "fail2":
        # the failing calls are leaves (nothing depends on them), so that every other call still runs and finishes
        succs = ir.succs()
        leaves = [c for c in calls if not succs[c] and ir.nodes[c].args]
        desc = dict(desc, faults=dict(desc["faults"], among=leaves, p=0.7))

    def before_run(R_):
        holder["R"] = R_
        R_.H.keep_exceptions = False

    try:
        d2 = dict(desc, max_errors=None) if mode == "failb" else desc
        if mode == "obs":
            d2 = dict(desc, delays="none")
        R = plainrun.execute(d2, pre=pre, record_args=False, track_results=True, ir=ir, before_run=before_run, hang_watch=drv is None,
                             progress=obs.progress() if obs else None)
    finally:
        if drv is not None:
            drv.run_done = True
            drv.stop()
    mid_checked = state["checked"]
    if mode == "failb":
        if R.exc is None:
            return {"status": "inconclusive", "detail": "len() consumer did not fail"}
    elif mode == "fail2":
        if R.exc is None:
            return {"status": "ok", "counters": {"fail2_cases_without_failure": 1}, "nontrivial": False}
    else:
        if R.exc is not None:
            return {"status": "inconclusive", "detail": f"run raised {R.exc!r} cause {R.exc.__cause__!r}"}
        # (iv) after the run: drop the returned value, everything must be dead
        R.result = None
        gc.collect()
        alive = [p for p, wr in R.H.result_refs.items() if wr() is not None]
        if alive and state["bad"] is None:
            state["bad"] = f"after run returned and its value was dropped, results of {sorted(alive)[:8]} are still alive"
    counters = {"runs": 1, "liveness_checkpoints": state["checkpoints"], "results_checked_before_end": mid_checked,
                "results_checked_after_end": len(R.H.result_refs), f"mode_{mode}": 1,
                "quiescent_states": drv.quiescent_states if drv else 0}
    res = {"status": "ok", "counters": counters, "nontrivial": mid_checked > 0,
           "sig": hashlib.sha1(("\n".join(ir.describe(200)) + f"|{desc['W']}|{desc['sched']}|{mode}").encode()).hexdigest()[:16]}
    if desc["seed"] % 250 == 0 or state["bad"]:
        res["sample"] = {"desc": desc, "plan": ir.describe(12), "checked_mid_run": mid_checked}
    if drv is not None and drv.error:
        return {"status": "inconclusive", "detail": drv.error}
    if state["bad"]:
        res.update(status="violation", detail=state["bad"], mechanism="retained-result", witness={"plan": ir.describe(200), "history": R.H.compact_history(300)})
    return res


def finalize(agg, tier):
    c = agg.counters
    reasons = []
    if c["results_checked_before_end"] < 500:
        reasons.append("fewer than 500 results with finished consumers were checked before the end of their run")
    if c["preempt_release_holds_others_completed"] < 100:
        reasons.append("release preemption: fewer than 100 holds during which the other consumers completed")
    if c["mounted_values_checked"] < 50:
        reasons.append("fewer than 50 liveness checks of values written to / read from a MountedStore")
    for m in ("mode_w1", "mode_anc", "mode_wave", "mode_registry", "mode_failb", "mode_obs", "mode_fail2", "mode_retry"):
        if c[m] < 20:
            reasons.append(f"too few {m} cases")
    return reasons
