"""C18 - staleness depends only on instants, not on time zone or naive/aware form."""
import datetime as dt
import hashlib
import os
import random
import shutil
import tempfile
import time
import zoneinfo

from vmon import env, history, ir as irmod, regmodel

ID = "C18"
LEVEL = "exploration"
RULE = (
    "cases = (process time zone via TZ + tzset) x generated registry plans whose stores report modified times as epoch "
    "instants rendered in a seeded representation each (naive local with fold as datetime.fromtimestamp gives and the "
    "file stores produce, aware UTC, aware fixed offsets -12:00..+14:00, aware zoneinfo zones) x fresh_time (absent or any "
    "representation); instants are clustered around the zone's DST transitions (inside the repeated fall-back hour, across "
    "the spring-forward gap) or spread over years; one scenario in ten puts the naive sentinels datetime.max / datetime.min (the ends of "
    "the range, where conversion to UTC overflows) in as fresh_time or as one store's modified time; mode 'file' uses real JsonFileStore files with os.utime (a third of them with modified times 1/64 s apart inside two seconds). oracle = the "
    "out-of-date / need oracle evaluated on epoch seconds: the exact multiset of rebuilt stores, executed calls and reads "
    "must match. non-trivial = non-UTC zone with at least two different representations among the datetimes involved; "
    "distinct by (zone, plan, instants, representations)"
)
ASSUMPTIONS = ["a naive datetime denotes local time (datetime.fromtimestamp / datetime.now), as the file stores produce and the documentation passes",
               "tz database present under /usr/share/zoneinfo"]

# Europe/London and Europe/Lisbon: standard offset 0 (time.timezone == 0) but summer time; Africa/Casablanca: "negative DST"
ZONES = ["UTC", "America/New_York", "Europe/Berlin", "Asia/Kolkata", "Pacific/Chatham", "Australia/Lord_Howe", "Pacific/Kiritimati", "America/St_Johns",
         "Europe/London", "Europe/Lisbon", "Africa/Casablanca", "Asia/Tokyo", "America/Los_Angeles", "Pacific/Honolulu"]
OTHER = ["Asia/Tokyo", "America/Los_Angeles", "Europe/London", "Australia/Sydney", "America/Sao_Paulo"]


def gen_cases(tier, seed):
    per_zone = 300 if tier == "quick" else 10000
    out = []
    for z in ZONES:
        for i in range(per_zone):
            s = env.seed_for(seed, ID, tier, z, i)
            out.append({"seed": s, "zone": z, "mode": "file" if s % 5 == 0 else "mem"})
    return out


def transitions(zone, rng):
    """A UTC instant at which the zone's offset changes (fall-back or spring-forward), or None."""
    z = zoneinfo.ZoneInfo(zone)
    year = rng.randint(2001, 2024)
    t = int(dt.datetime(year, 1, 1, tzinfo=dt.timezone.utc).timestamp())
    prev = z.utcoffset(dt.datetime.fromtimestamp(t, z))
    found = []
    for d in range(366):
        t2 = t + d * 86400
        o = z.utcoffset(dt.datetime.fromtimestamp(t2, z))
        if o != prev:
            lo, hi = t2 - 86400, t2
            while hi - lo > 1:
                mid = (lo + hi) // 2
                if z.utcoffset(dt.datetime.fromtimestamp(mid, z)) == prev:
                    lo = mid
                else:
                    hi = mid
            found.append((hi, "fall" if o < prev else "spring"))
            prev = o
    return found


class StampLike(dt.datetime):
    """A datetime SUBCLASS, as libraries hand them out (pandas.Timestamp, pendulum, arrow-like wrappers): the same instant, naive or aware."""


EDGE_MAX, EDGE_MIN = 1e18, -1e18  # stand-ins (epoch seconds) for the instants the naive sentinels datetime.max / datetime.min denote


def represent(epoch, rep):
    if epoch == EDGE_MAX:
        return dt.datetime.max  # naive: "later than everything" in whatever the local zone is
    if epoch == EDGE_MIN:
        return dt.datetime.min  # naive: "earlier than everything"
    if rep[0].startswith("sub_"):
        # (built field by field from the plain value: in CPython 3.12 `Subclass.fromtimestamp(t)` drops the fold of a naive local time)
        d = represent(epoch, {"sub_naive": ("naive_local",), "sub_fixed": ("fixed", rep[1] if len(rep) > 1 else 0), "sub_zone": ("zone", rep[1] if len(rep) > 1 else "UTC")}[rep[0]])
        return StampLike(d.year, d.month, d.day, d.hour, d.minute, d.second, d.microsecond, tzinfo=d.tzinfo, fold=d.fold)
    if rep[0] == "naive_local":
        return dt.datetime.fromtimestamp(epoch)
    if rep[0] == "aware_utc":
        return dt.datetime.fromtimestamp(epoch, dt.timezone.utc)
    if rep[0] == "fixed":
        return dt.datetime.fromtimestamp(epoch, dt.timezone(dt.timedelta(minutes=rep[1])))
    if rep[0] == "zone":
        return dt.datetime.fromtimestamp(epoch, zoneinfo.ZoneInfo(rep[1]))
    raise AssertionError(rep)


PROCESS_ZONE = [None]


def rand_rep(rng, bias_naive=0.45):
    if rng.random() < 0.12:
        k_ = rng.random()
        if k_ < 0.3:
            return ("sub_naive",)
        if k_ < 0.7:
            return ("sub_fixed", rng.choice([-720, -570, -300, -60, 0, 60, 330, 345, 525, 765, 840]))
        return ("sub_zone", rng.choice(OTHER + ZONES))
    r = rng.random()
    if r < bias_naive:
        return ("naive_local",)
    if r < bias_naive + 0.2:
        return ("aware_utc",)
    if r < bias_naive + 0.4:
        return ("fixed", rng.choice([-720, -570, -300, -60, 0, 60, 330, 345, 525, 765, 840]))
    if PROCESS_ZONE[0] and rng.random() < 0.5:
        # aware datetimes in the zone whose transition the instants straddle (several of them then share one ZoneInfo object:
        # Python compares such values by wall clock, ignoring fold - they must be compared as instants all the same)
        return ("zone", PROCESS_ZONE[0])
    return ("zone", rng.choice(OTHER + ZONES))


def set_tz(zone):
    os.environ["TZ"] = zone
    time.tzset()


def run_case(desc):
    import uberjob

    rng = random.Random(desc["seed"])
    zone = desc["zone"]
    old_tz = os.environ.get("TZ")
    set_tz(zone)
    PROCESS_ZONE[0] = zone if zone != "UTC" else None
    try:
        if desc["mode"] == "file":
            return run_file(desc, rng, zone)
        rp = regmodel.gen_regplan(rng, rng.randint(2, 9), cfg={"p_store": 0.8, "p_src": 0.8})
        S = regmodel.Session(rp, desc["seed"])
        if not S.reg:
            return {"status": "ok", "counters": {"empty_registry": 1}, "nontrivial": False}
        tr = transitions(zone, rng)
        style = rng.choice(["dst", "dst", "spread", "subsecond", "recent"]) if tr else rng.choice(["spread", "spread", "subsecond", "recent"])
        sub = False
        if style == "recent":
            # everything happened within the last day of the REAL clock (fresh_time never in the future): nothing may be measured against
            # "now" in one representation and against the stored times in another
            style = kind = "recent"
            now_ = int(time.time())
            pool = [now_ - d for d in rng.sample(range(90, rng.choice([3, 8, 14, 22]) * 3600, 31), 40)]
        if style == "recent":
            pass
        elif style == "subsecond":
            # all instants within four seconds, 1/64 s apart (exactly representable, so the order of the instants is beyond doubt): files on fast
            # storage, written one after the other. Half of the time right at a transition.
            sub = True
            if tr and rng.random() < 0.5:
                T0, kind = rng.choice(tr)
                T0 += rng.choice([-2, 0, 3600 - 2, -3600])
            else:
                T0 = rng.randint(978307200, 1735689600)
            kind = "subsecond"
            pool = [T0 + j / 64 for j in rng.sample(range(0, 256), 40)]
        elif style == "dst":
            T0, kind = rng.choice(tr)
            pool = [T0 + d for d in rng.sample(range(-5400, 5400, 60), 40)]
        elif rng.random() < 0.2:
            # instants around (and before) 1970-01-01: local times on either side of the epoch, a few hours apart
            kind = "spread"
            pool = [d * 1800 + rng.randint(0, 1799) for d in rng.sample(range(-60, 60), 40)]
        else:
            kind = "spread"
            pool = [rng.randint(978307200, 1735689600) for _ in range(40)]  # 2001 .. 2025
        rng.shuffle(pool)
        raw, seen = S.scratch()
        reps = {}
        # instants: mostly increasing along the DAG (an up-to-date cache), then perturbed so some stores are older than upstream
        order = sorted(S.reg)
        inst = sorted(pool[: len(order)])
        if rng.random() < 0.7:
            for _ in range(rng.randint(1, 3)):
                a, b = rng.randrange(len(inst)), rng.randrange(len(inst))
                inst[a], inst[b] = inst[b], inst[a]
        S.clock.t = 1_900_000_000
        same_zone_objects = kind in ("fall", "spring") and zone != "UTC" and rng.random() < (0.35 if kind == "fall" else 0.2)
        for i, t in zip(order, inst):
            st = S.stores[i]
            st.content = raw[i] if rp.role[i] != "psrc" else st.content
            st.mtick = t
            rep = rand_rep(rng)
            if same_zone_objects and rng.random() < 0.8:
                rep = ("zone", zone)  # aware values that share ONE tzinfo object (Python orders those by wall clock, ignoring fold)
            reps[i] = rep
            st.dt_of = (lambda tick, rep=rep: represent(tick, rep))
        # the naive sentinels at the two ends of the datetime range (in most zones they cannot be placed on the UTC time line: the conversion
        # overflows): datetime.max as fresh_time = "rebuild everything", datetime.min as fresh_time = no constraint, datetime.min as a stored
        # value's modified time = "older than everything", datetime.max as a source's = "newer than everything". At most one store per end,
        # so no two equal edge instants meet; every other instant lies in 1969..2025.
        edge = rng.random() < 0.1
        edge_kinds = []
        if edge:
            for i in rng.sample(order, min(len(order), rng.choice([0, 1, 1, 2]))):
                e_ = EDGE_MIN if EDGE_MIN not in [S.stores[j].mtick for j in order] else EDGE_MAX
                if rng.random() < 0.3 and EDGE_MAX not in [S.stores[j].mtick for j in order]:
                    e_ = EDGE_MAX
                if e_ in [S.stores[j].mtick for j in order]:
                    continue
                S.stores[i].mtick = e_
                inst[order.index(i)] = e_
                edge_kinds.append(("store_max" if e_ == EDGE_MAX else "store_min"))
        fresh_epoch = None
        fresh_rep = None
        if edge and rng.random() < 0.8:
            fresh_epoch = rng.choice([EDGE_MAX, EDGE_MAX, EDGE_MIN])
            if fresh_epoch in [S.stores[j].mtick for j in order]:
                fresh_epoch = -fresh_epoch
            fresh_rep = ("naive_local",)
            edge_kinds.append("fresh_max" if fresh_epoch == EDGE_MAX else "fresh_min")
        elif rng.random() < (0.9 if style == "recent" else 0.6):
            fresh_epoch = rng.choice(pool) + (rng.choice([0, 0, 1 / 128, -1 / 128, 0.5]) if sub else rng.choice([0, 0, 1, -1, 30] if style == "recent" else [0, 0, 1, -1, 1800]))
            fresh_rep = rand_rep(rng, 0.4)
        out_ids = history.choose_out(rng, S)
        exp = S.expect(out_ids, fresh_epoch)
        S.H.reset()
        exc = None
        try:
            uberjob.run(S.plan, output=S.out_spec(out_ids), registry=S.registry, max_workers=rng.choice([1, 4]), progress=None,
                        fresh_time=None if fresh_epoch is None else represent(fresh_epoch, fresh_rep))
        except BaseException as e:
            exc = e
        bad = None
        if exc is not None:
            bad = f"run raised {exc!r} (cause {exc.__cause__!r})"
        else:
            d = S.check_counts(exp)
            if d:
                execs, reads, writes, side, mts = S.observed()
                bad = (f"rebuilt stores {sorted(writes)} but the instants say {sorted(exp.writes)}: {d}")
        all_reps = set(r[0] for r in reps.values()) | ({fresh_rep[0]} if fresh_rep else set())
        info = {"zone": zone, "style": kind, "instants": {f"s{i}": [S.stores[i].mtick if i not in exp.writes else t, reps[i]] for i, t in zip(order, inst)},
                "fresh": [fresh_epoch, fresh_rep], "expected_rebuilt": sorted(exp.writes)}
        mech = "tz-representation"
        res = {"status": "ok", "counters": {"scenarios": 1, f"zone_{zone}": 1, f"style_{kind}": 1,
                                             "mixed_representation_scenarios": int(len(all_reps) > 1),
                                             "stores_with_decision": len(S.reg), "edge_of_range_scenarios": int(bool(edge_kinds)),
                                             **{f"edge_{k}": 1 for k in set(edge_kinds)}},
               "sets": {"representations": sorted(all_reps)},
               "nontrivial": zone != "UTC" and len(all_reps) > 1,
               "sig": hashlib.sha1((zone + "\n".join(S.describe(50)) + str(inst) + str(sorted(reps.items())) + str(fresh_epoch) + str(fresh_rep)).encode()).hexdigest()[:16]}
        if desc["seed"] % 500 == 0 or bad:
            res["sample"] = info
        if bad:
            res.update(status="violation", detail=f"[TZ={zone} {kind}] {bad}", mechanism=mech, witness=dict(info, plan=S.describe(50)))
        return res
    finally:
        PROCESS_ZONE[0] = None
        if old_tz is None:
            os.environ.pop("TZ", None)
        else:
            os.environ["TZ"] = old_tz
        time.tzset()


def run_file(desc, rng, zone):
    """Real JsonFileStore files (naive local modified times from the file system) + aware/naive fresh_time."""
    import uberjob
    from uberjob.stores import JsonFileStore, LiteralSource, ModifiedTimeSource, PathSource

    d = tempfile.mkdtemp(prefix="vmon-c18-")
    try:
        tr = transitions(zone, rng)
        if tr and rng.random() < 0.7:
            T0, kind = rng.choice(tr)
            ts = sorted(T0 + x for x in rng.sample(range(-5400, 5400, 60), 3))
        else:
            kind = "spread"
            ts = sorted(rng.randint(978307200, 1735689600) for _ in range(3))
        subsec = rng.random() < 0.35
        if subsec:
            # files written within two seconds of each other, 1/64 s apart (exact in binary, in microseconds and in nanoseconds): the order of the
            # instants is beyond doubt, and a time handed in by the user (fresh_time, LiteralSource) may fall inside the same second as a file's
            base = int(ts[0])
            ts = sorted(base + k_ / 64 for k_ in rng.sample(range(2, 128), 3))
        if rng.random() < 0.5:
            i, j = rng.sample(range(3), 2)
            ts[i], ts[j] = ts[j], ts[i]
        plan = uberjob.Plan()
        reg = uberjob.Registry()
        paths = [os.path.join(d, f"{n}.json") for n in "abc"]
        stores = [JsonFileStore(p) for p in paths]
        def set_mtime(path, t):
            ns = int(t) * 10**9 + round((t - int(t)) * 64) * 15625000
            os.utime(path, ns=(ns, ns))
            return os.stat(path).st_mtime_ns == ns

        for s_, t, v in zip(stores, ts, (1, 2, 3)):
            s_.write(v)
            if not set_mtime(s_.path, t):
                return {"status": "ok", "counters": {"fs_without_subsecond_mtime": 1}, "nontrivial": False}
        # the source is a file store, or one of the bundled stores that take / report a datetime handed in by the user in any representation
        src_kind = rng.choice(["json", "json", "mts", "lit", "path"] + ([] if subsec else ["pathdir"]))
        src_rep = rand_rep(rng, 0.3)
        if src_kind == "mts":
            stores[0] = ModifiedTimeSource(represent(ts[0], src_rep))
        elif src_kind == "lit":
            stores[0] = LiteralSource(1, represent(ts[0], src_rep))
        elif src_kind == "path":
            stores[0] = PathSource(paths[0])
        elif src_kind == "pathdir":
            # a directory as source: its modified time is the directory's own (set after its entries exist); entries carry other times
            # from the same window, on both sides of the transition
            dd = os.path.join(d, "srcdir")
            os.mkdir(dd)
            offs = [-3000, -1500, -600, -60]
            if kind == "fall" and rng.random() < 0.7:
                # the directory was last changed in the SECOND pass of the repeated hour, its entries in the first pass at a later wall-clock
                # reading, and the downstream file was written in between
                a_, b_ = rng.randint(60, 1700), rng.randint(60, 1700)
                ts[0] = T0 + b_
                offs = [-(a_ + b_)]
                ts[1] = T0 - a_ + (a_ + b_) // 2
                ts[2] = ts[0] + rng.choice([-30, 40, 500])
                for s_, t in zip(stores[1:], ts[1:]):
                    os.utime(s_.path, (t, t))
            for j in range(3):
                fp = os.path.join(dd, f"part{j}")
                with open(fp, "w") as f:
                    f.write("x")
                te = ts[0] + rng.choice(offs)
                os.utime(fp, (te, te))
            os.utime(dd, (ts[0], ts[0]))
            stores[0] = PathSource(dd)
        a = reg.source(plan, stores[0])
        b = plan.call(lambda x: 2, a)
        reg.add(b, stores[1])
        c = plan.call(lambda x: 3, b)
        reg.add(c, stores[2])
        fresh_epoch = fresh_rep = None
        if rng.random() < 0.7:
            fresh_epoch = rng.choice(ts) + (rng.choice([-1 / 64, -1 / 64, 0, 1 / 64, 0.5, -0.5]) if subsec else rng.choice([-1, 0, 1, 1800, -1800]))
            fresh_rep = rand_rep(rng, 0.3)
        before = [os.stat(p).st_mtime_ns for p in paths]
        uberjob.run(plan, registry=reg, progress=None, fresh_time=None if fresh_epoch is None else represent(fresh_epoch, fresh_rep))
        after = [os.stat(p).st_mtime_ns for p in paths]
        rebuilt = {n for n, x, y in zip("abc", before, after) if x != y}
        tA, tB, tC = ts
        oodB = tA > tB or (fresh_epoch is not None and fresh_epoch > tB)
        oodC = oodB or tB > tC or tA > tC or (fresh_epoch is not None and fresh_epoch > tC)
        want = ({"b"} if oodB else set()) | ({"c"} if oodC else set())
        bad = None
        if rebuilt != want:
            bad = f"files rewritten {sorted(rebuilt)} but the instants say {sorted(want)}"
        info = {"zone": zone, "style": kind, "file_mtimes_epoch": ts, "fresh": [fresh_epoch, fresh_rep], "expected_rebuilt": sorted(want),
                "source": [src_kind, src_rep if src_kind in ("mts", "lit") else "file"]}
        res = {"status": "ok", "counters": {"scenarios": 1, "file_scenarios": 1, "file_subsecond_scenarios": int(subsec), f"zone_{zone}": 1, f"style_{kind}": 1, f"file_source_{src_kind}": 1,
                                             "mixed_representation_scenarios": int(fresh_rep is not None and fresh_rep[0] != "naive_local")},
               "sets": {"representations": ["file_naive_local"] + ([fresh_rep[0]] if fresh_rep else [])},
               "nontrivial": zone != "UTC" and fresh_rep is not None and fresh_rep[0] != "naive_local",
               "sig": hashlib.sha1(f"file{zone}{ts}{fresh_epoch}{fresh_rep}".encode()).hexdigest()[:16]}
        if desc["seed"] % 500 == 0 or bad:
            res["sample"] = info
        if bad:
            res.update(status="violation", detail=f"[TZ={zone} {kind} file stores] {bad}", mechanism="tz-representation", witness=info)
        return res
    finally:
        shutil.rmtree(d, ignore_errors=True)


def finalize(agg, tier):
    c = agg.counters
    reasons = []
    for z in ZONES:
        if c[f"zone_{z}"] < 50:
            reasons.append(f"zone {z} ran fewer than 50 scenarios")
    if c["mixed_representation_scenarios"] < 200:
        reasons.append("fewer than 200 mixed naive/aware scenarios")
    if c["style_fall"] < 50 or c["style_spring"] < 50:
        reasons.append("too few scenarios around DST transitions")
    if c["file_subsecond_scenarios"] < 30 and not c["fs_without_subsecond_mtime"]:
        reasons.append("fewer than 30 file scenarios with sub-second modified times")
    if c["edge_fresh_max"] < 30 or c["edge_store_min"] < 30:
        reasons.append("fewer than 30 scenarios with datetime.max as fresh_time / datetime.min as a modified time")
    return reasons
