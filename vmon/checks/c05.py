"""C05 - exactly the out-of-date stored values are rebuilt; a repeated run does nothing."""
import random

from vmon import env, histcheck

ID = "C05"
LEVEL = "exploration"
RULE = (
    "cases = store states reached by seeded histories (as C03) with pairwise distinct logical-clock times, every kind of "
    "output and fresh_time drawn from {None, an existing tick, a half tick, now}; before each run a declarative "
    "out-of-date oracle + need fixpoint (functions of IR, registry assignment, store times, fresh_time, output) predicts "
    "the exact multiset of call executions, store writes, store reads and producer side-writes; after each successful "
    "run an immediately repeated run with no output must produce no call/read/write event; non-trivial = a checked "
    "state had both up-to-date and out-of-date stored values; distinct by (structure, step sequence)"
)
ASSUMPTIONS = [
    "the oracle reads 'older than' as strict comparison of instants and exempts pure sources (and sources without registered ancestors) from fresh_time, as documented by test_fresh_time_basic / test_fresh_time_advanced",
    "dependent-source producers are unstored and dedicated (their only successor is the dependency edge to the source)",
]


def gen_cases(tier, seed):
    n = 500 if tier == "quick" else 8000
    out = []
    for i in range(n):
        s = env.seed_for(seed, ID, tier, i)
        r = random.Random(env.seed_for(s, "descriptor"))  # independent of the stream run_case derives from the same seed
        out.append({"seed": s, "n": r.randint(2, 22 if tier == "quick" else 55), "steps": r.randint(3, 14 if tier == "quick" else 25)})
    return out


def run_case(desc):
    res = histcheck.run_case(desc, "C05", ("C05",), "count_checks")
    c = res.get("counters", {})
    res["nontrivial"] = c.get("uptodate_values_checked", 0) > 0 and c.get("outofdate_values_checked", 0) > 0
    return res


def finalize(agg, tier):
    c = agg.counters
    reasons = []
    if c["uptodate_values_checked"] < 200 or c["outofdate_values_checked"] < 200:
        reasons.append("too few up-to-date / out-of-date stored values were checked")
    if c["silent_rerun_checks"] < 100:
        reasons.append("fewer than 100 silent re-run checks")
    return reasons
