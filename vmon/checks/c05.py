"""C05 - exactly the out-of-date stored values are rebuilt; a repeated run does nothing."""
import json
import random

from vmon import env, histcheck

ID = "C05"
LEVEL = "exploration"
RULE = (
    "cases = store states reached by seeded histories (as C03) with pairwise distinct logical-clock times, every kind of "
    "output and fresh_time drawn from {None, an existing tick, a half tick, now}; before each run a declarative "
    "out-of-date oracle + need fixpoint (functions of IR, registry assignment, store times, fresh_time, output) predicts "
    "the exact multiset of call executions, store writes, store reads and producer side-writes; after each successful "
    "run an immediately repeated run with no output must produce no call/read/write event; non-trivial = a checked "
    "state had both up-to-date and out-of-date stored values; distinct by (structure, step sequence)"
)
ASSUMPTIONS = [
    "the oracle reads 'older than' as strict comparison of instants and exempts pure sources (and sources without registered ancestors) from fresh_time, as documented by test_fresh_time_basic / test_fresh_time_advanced",
    "dependent-source producers are unstored and dedicated (their only successor is the dependency edge to the source)",
]


def gen_cases(tier, seed):
    n = 500 if tier == "quick" else 8000
    out = []
    for i in range(n):
        s = env.seed_for(seed, ID, tier, i)
        r = random.Random(env.seed_for(s, "descriptor"))  # independent of the stream run_case derives from the same seed
        out.append({"seed": s, "n": r.randint(2, 22 if tier == "quick" else 55), "steps": r.randint(3, 14 if tier == "quick" else 25),
                    # one history in five runs in a zone with daylight saving, its clock mapped onto instants around a transition, with
                    # mixed naive / aware representations ("modified times ... compared as instants")
                    "tz": r.choice(["America/New_York", "Europe/London", "Australia/Lord_Howe", "America/St_Johns", "Europe/Berlin"]) if r.random() < 0.3 else None})
    for i in range(n // 10):
        out.append({"seed": env.seed_for(seed, ID, tier, "file", i), "mode": "file"})
    # the stale check itself runs on several workers: a stored value with one older and one newer source, the worker that queried the older
    # source held at every instruction of its bookkeeping while the other completes (vmon/preempt.py) - the value is rebuilt all the same
    combos = [(W, of) for W in (2, 4) for of in (True, False)]
    if tier == "quick":
        combos = combos[seed % 2::2]
    for W, of in combos:
        out.append({"seed": env.seed_for(seed, ID, tier, "stale_fanin", W, of), "mode": "preempt_stale", "W": W, "older_first": of})
    return out


def run_file(desc, prop="C05"):
    """Histories over the bundled FILE stores with execution counters in the plan's functions: build, repeat (silent), update the source
    (sometimes so that a downstream value is rebuilt to byte-identical content), touch, delete; after every run exactly the values the
    real file times make out of date are recomputed, once, and an immediately repeated run computes and rewrites nothing."""
    import os
    import shutil
    import tempfile

    import uberjob
    from vmon.checks import c08_file as F

    rng = random.Random(desc["seed"])
    shape = rng.choice([0, 1, 2])
    c_json = rng.random() < 0.5
    d = tempfile.mkdtemp(prefix="vmon-c05f-")
    counters = {"file_histories": 1, "file_runs_checked": 0, "file_silent_reruns": 0, "file_identical_rebuilds": 0}
    bad = None
    log = []
    try:
        with_stamp = rng.random() < 0.4
        plan, reg, stores, nodes, deps = F.build(d, shape, c_json, path_source=with_stamp)
        names = list(nodes)
        pad = "x" * rng.randint(0, 20)
        aval = {"v": rng.randint(10, 99), "pad": pad}
        symlinked = rng.random() < 0.4
        compress = rng.random() < 0.5
        if symlinked:
            # the source path is a symbolic link to a file kept elsewhere; updates rewrite the TARGET in place (the link itself never changes)
            from uberjob.stores import JsonFileStore

            os.mkdir(os.path.join(d, "data"))
            real = JsonFileStore(os.path.join(d, "data", "real_a.json"))
            real.write(aval)
            os.symlink(os.path.join(d, "data", "real_a.json"), os.path.join(d, "a.json"))
            os.utime(os.path.join(d, "a.json"), (1_000_000_000, 1_000_000_000), follow_symlinks=False)
            writer = real
        else:
            writer = stores["a"]
        writer.write(aval)
        F.wait_fs_tick(d)
        for step in range(rng.randint(3, 8)):
            op = "run" if step == 0 else rng.choice(["run", "update_same_len", "update", "touch_source", "delete", "run", "leftover_staging"] + (["touch_stamp", "touch_stamp"] if with_stamp else []))
            if op == "update_same_len":
                aval = {"v": rng.choice([v for v in range(10, 100) if v != aval["v"]]), "pad": pad}
                writer.write(aval)
            elif op == "update":
                aval = {"v": rng.randint(100, 9999), "pad": pad}
                writer.write(aval)
            elif op == "touch_source":
                writer.write(aval)  # rewritten with the very same content: newer, everything downstream is out of date
            elif op == "delete":
                victim = rng.choice(names[1:])
                try:
                    os.remove(stores[victim].path)
                except OSError:
                    pass
            elif op == "touch_stamp":
                # the file behind the PathSource is replaced (same registry, same PathSource object as in the earlier runs)
                with open(str(stores["p"].path), "w") as f_:
                    f_.write(f"stamp {step}")
                counters["file_path_source_touched"] = counters.get("file_path_source_touched", 0) + 1
            elif op == "leftover_staging":
                # what a writer killed between opening its staging file and the rename leaves behind, next to a value that is complete:
                # it changes nothing about which values are out of date
                victim = rng.choice(names)
                with open(str(stores[victim].path) + ".STAGING", "wb") as f_:
                    f_.write(rng.choice([b"", b'{"v": 1', b"\x80\x04junk" * 40]))
                counters["file_leftover_staging_files"] = counters.get("file_leftover_staging_files", 0) + 1
            log.append(op)
            F.wait_fs_tick(os.path.join(d, "data") if symlinked else d)
            F.wait_fs_tick(d)
            if compress:
                # keep the ORDER of all file times but squeeze them to 0.2 ms apart (fast storage, small files): which values are out of date
                # is decided by the order of the instants, however close they are
                paths = [os.path.join(d, "data", "real_a.json")] if symlinked else []
                paths += [str(stores[k].path) for k in names if os.path.lexists(str(stores[k].path)) and not os.path.islink(str(stores[k].path))]
                paths = sorted(set(paths), key=lambda p_: os.stat(p_).st_mtime_ns)
                base_ns = 1_700_000_000_000_000_000 + step * 10_000_000
                for rank, p_ in enumerate(paths):
                    os.utime(p_, ns=(base_ns + rank * 200_000, base_ns + rank * 200_000))
            st0 = F.state(stores, names)
            o = F.ood(st0, deps, names)
            want_before = F.scratch_values(aval, names)  # (calls the plain functions itself: taken before the counter snapshot)
            prev_c = None
            try:
                prev_c = stores["c"].read()
            except BaseException:
                pass
            calls0 = dict(F.CALLS)
            try:
                uberjob.run(plan, registry=reg, progress=None, max_workers=rng.choice([1, 2, 4]))
            except BaseException as e:
                bad = f"step {step} ({op}): run raised {e!r} (cause {e.__cause__!r})"
                break
            counters["file_runs_checked"] += 1
            did = {k: F.CALLS[k] - calls0.get(k, 0) for k in names[1:]}
            want_calls = {k: (1 if o[k] else 0) for k in names[1:]}
            if prop == "C03":
                # C03's clause: after every successful run each stored value equals the from-scratch value for the current source
                for k in names[1:]:
                    try:
                        got_v = stores[k].read()
                    except BaseException as e:
                        bad = f"step {step} ({op}; history {log}): {k} cannot be read after a successful run: {e!r}"
                        break
                    if json.loads(json.dumps(got_v)) != json.loads(json.dumps(want_before[k])):
                        bad = (f"step {step} ({op}; history {log}{', source path is a symbolic link' if symlinked else ''}): after a successful run {k} holds "
                               f"{str(got_v)[:80]!r}, from-scratch evaluation on the current source gives {str(want_before[k])[:80]!r}")
                        break
                if bad:
                    break
                continue
            if did != want_calls:
                bad = (f"step {step} ({op}; history {log}): recomputed {did}, but the file times before the run make exactly {sorted(k for k in names[1:] if o[k])} "
                       f"out of date (each once)")
                break
            st1 = F.state(stores, names)
            for k in names[1:]:
                if o[k] and st1[k] == st0[k]:
                    bad = f"step {step} ({op}; history {log}): {k} was out of date and recomputed but its file was not rewritten (same mtime/inode): it will look out of date for ever"
                    break
                if not o[k] and st1[k] != st0[k]:
                    bad = f"step {step} ({op}): up-to-date {k} was rewritten"
                    break
            if bad:
                break
            if o.get("c") and prev_c is not None and prev_c == want_before["c"]:
                counters["file_identical_rebuilds"] += 1
            F.wait_fs_tick(d)
            calls1 = dict(F.CALLS)
            uberjob.run(plan, registry=reg, progress=None, max_workers=2)
            counters["file_silent_reruns"] += 1
            if dict(F.CALLS) != calls1 or F.state(stores, names) != st1:
                again = {k: F.CALLS[k] - calls1.get(k, 0) for k in names[1:] if F.CALLS[k] != calls1.get(k, 0)}
                bad = f"step {step} ({op}; history {log}): the immediately repeated run recomputed {again} / rewrote files although nothing changed"
                break
    finally:
        shutil.rmtree(d, ignore_errors=True)
    counters["file_histories_symlinked_source"] = int(symlinked)
    res = {"status": "ok", "counters": counters, "nontrivial": counters["file_identical_rebuilds"] > 0, "sig": f"file|{shape}|{c_json}|{symlinked}|{log}"}
    if bad:
        res.update(status="violation", detail=f"[file-backed stores {'json c' if c_json else 'pickle c'}] {bad}", mechanism=prop.lower() + "-oracle", witness={"history": log})
    return res


def run_case(desc):
    if desc.get("mode") == "file":
        return run_file(desc)
    if desc.get("mode") == "preempt_stale":
        from vmon import preempt

        return preempt.enumerate_stale_fanin(desc)
    res = histcheck.run_case(desc, "C05", ("C05",), "count_checks")
    c = res.get("counters", {})
    res["nontrivial"] = c.get("uptodate_values_checked", 0) > 0 and c.get("outofdate_values_checked", 0) > 0
    return res


def finalize(agg, tier):
    c = agg.counters
    reasons = []
    if c["uptodate_values_checked"] < 200 or c["outofdate_values_checked"] < 200:
        reasons.append("too few up-to-date / out-of-date stored values were checked")
    if c["file_identical_rebuilds"] < 5:
        reasons.append("fewer than 5 file-backed rebuilds to byte-identical content")
    if c["preempt_stale_holds_other_completed"] < 100:
        reasons.append("stale-check preemption: fewer than 100 holds during which the other source's query completed")
    if c["silent_rerun_checks"] < 100:
        reasons.append("fewer than 100 silent re-run checks")
    return reasons
