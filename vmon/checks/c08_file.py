"""C08 'file' mode: real file-backed stores, process death (fork + os._exit) at every file operation of a whole run."""
import hashlib
import json
import os
import pickle
import random
import shutil
import tempfile
import time

from vmon import fsfault


def f_b(a):
    return {"b_of": a, "n": len(str(a))}


def f_c(b):
    return ("c", b["n"] * 2, sorted(b))


def f_d(a, c):
    return [a, list(c)]


def f_e(d, b):
    return {"e": d, "bn": b["n"]}


def build(d, shape):
    import uberjob
    from uberjob.stores import JsonFileStore, PickleFileStore

    plan = uberjob.Plan()
    reg = uberjob.Registry()
    P = lambda n: os.path.join(d, n)
    stores = {"a": JsonFileStore(P("a.json")), "b": JsonFileStore(P("b.json")), "c": PickleFileStore(P("c.pkl")),
              "d": JsonFileStore(P("d.json")), "e": JsonFileStore(P("e.json"))}
    a = reg.source(plan, stores["a"])
    b = plan.call(f_b, a)
    reg.add(b, stores["b"])
    c = plan.call(f_c, b)
    reg.add(c, stores["c"])
    nodes = {"a": a, "b": b, "c": c}
    if shape >= 1:
        dd = plan.call(f_d, a, c)
        reg.add(dd, stores["d"])
        nodes["d"] = dd
    if shape >= 2:
        e = plan.call(f_e, nodes["d"], b)
        reg.add(e, stores["e"])
        nodes["e"] = e
    deps = {"b": ["a"], "c": ["b"], "d": ["a", "c"], "e": ["d", "b"]}
    return plan, reg, stores, nodes, deps


def scratch_values(aval, names):
    v = {"a": aval}
    v["b"] = f_b(aval)
    v["c"] = f_c(v["b"])
    if "d" in names:
        v["d"] = json.loads(json.dumps(f_d(aval, v["c"])))
    if "e" in names:
        v["e"] = json.loads(json.dumps(f_e(v["d"], v["b"])))
    return v


def state(stores, names):
    st = {}
    for n in names:
        p = stores[n].path
        try:
            s = os.stat(p)
            st[n] = (s.st_mtime_ns, s.st_ino)
        except OSError:
            st[n] = None
    return st


def ood(st, deps, names):
    out = {}
    anc = {}
    for n in names:
        if n == "a":
            out[n] = st[n] is None
            anc[n] = set()
            continue
        a = set()
        for p in deps[n]:
            a |= {p} | anc[p]
        anc[n] = a
        m = st[n]
        out[n] = m is None or any(out[x] for x in a) or any(st[x][0] > m[0] for x in a)
    return out


def wait_fs_tick(d):
    """wait until the file system clock has advanced past the newest file in d"""
    newest = max([os.stat(os.path.join(d, f)).st_mtime_ns for f in os.listdir(d)] or [0])
    probe = os.path.join(d, ".probe")
    for _ in range(2000):
        with open(probe, "w") as f:
            f.write("x")
        if os.stat(probe).st_mtime_ns > newest:
            break
        time.sleep(0.001)
    os.remove(probe)


def run_case(desc):
    import uberjob

    rng = random.Random(desc["seed"])
    shape = rng.choice([0, 1, 2])
    names = ["a", "b", "c"] + (["d"] if shape >= 1 else []) + (["e"] if shape >= 2 else [])
    initial = rng.choice(["empty", "stale_after_update", "partial"])
    W = rng.choice([1, 2])
    aval0 = {"v": rng.randint(0, 99), "pad": "x" * rng.randint(0, 30)}
    aval1 = {"v": rng.randint(100, 199)}
    base = tempfile.mkdtemp(prefix="vmon-c08f-")
    counters = {"file_cases": 1, "file_cut_positions": 0, "file_cuts_hit": 0, "file_repair_runs": 0, "file_uptodate_checked": 0}
    bad = None
    sample = {"desc": desc, "shape": names, "initial": initial}
    try:
        # template directory with the initial state
        tmpl = os.path.join(base, "tmpl")
        os.mkdir(tmpl)
        plan, reg, stores, nodes, deps = build(tmpl, shape)
        stores["a"].write(aval0)
        aval = aval0
        if initial != "empty":
            wait_fs_tick(tmpl)
            uberjob.run(plan, registry=reg, progress=None, max_workers=1)
            wait_fs_tick(tmpl)
            if initial == "stale_after_update":
                stores["a"].write(aval1)
                aval = aval1
            else:
                victim = rng.choice(names[1:])
                os.remove(stores[victim].path)
        wait_fs_tick(tmpl)
        want = scratch_values(aval, names)

        def fresh_dir(tag):
            d = os.path.join(base, tag)
            shutil.copytree(tmpl, d, copy_function=shutil.copy2)
            for f in os.listdir(tmpl):  # copy2 keeps mtimes; keep directory listing identical
                pass
            return d

        # counted run in a forked child (so the parent's state is untouched)
        d = fresh_dir("count")
        r_, w_ = os.pipe()
        pid = os.fork()
        if pid == 0:
            try:
                plan_, reg_, *_ = build(d, shape)
                pl = fsfault.Plan()
                with fsfault.Shim(pl, d):
                    uberjob.run(plan_, registry=reg_, progress=None, max_workers=W)
                os.write(w_, str(pl.count).encode())
            finally:
                os._exit(0)
        os.close(w_)
        os.waitpid(pid, 0)
        K = int(os.read(r_, 64) or b"0")
        os.close(r_)
        shutil.rmtree(d, ignore_errors=True)
        sample["K"] = K
        if K == 0:
            return {"status": "inconclusive", "detail": "counted file-backed run performed no file operation"}
        for k in range(1, K + 1):
            d = fresh_dir(f"k{k}")
            counters["file_cut_positions"] += 1
            pid = os.fork()
            if pid == 0:
                try:
                    plan_, reg_, *_ = build(d, shape)
                    pl = fsfault.Plan(k=k, action="exit")
                    with fsfault.Shim(pl, d):
                        try:
                            uberjob.run(plan_, registry=reg_, progress=None, max_workers=W)
                        except BaseException:
                            pass
                finally:
                    os._exit(0)
            _, status = os.waitpid(pid, 0)
            if os.WIFEXITED(status) and os.WEXITSTATUS(status) == 137:
                counters["file_cuts_hit"] += 1
            plan2, reg2, stores2, nodes2, deps2 = build(d, shape)
            st = state(stores2, names)
            o = ood(st, deps2, names)
            for n in names[1:]:
                if not o[n]:
                    counters["file_uptodate_checked"] += 1
                    try:
                        got = stores2[n].read()
                        if isinstance(got, tuple):
                            got = tuple(got)
                    except BaseException as e:
                        bad = f"after process death at file operation {k}/{K}: {n} would be treated as up to date but cannot be read: {e!r}"
                        break
                    if got != want[n] and json.loads(json.dumps(got)) != json.loads(json.dumps(want[n])):
                        bad = f"after process death at file operation {k}/{K}: {n} would be treated as up to date but holds {got!r}, from-scratch value is {want[n]!r}"
                        break
            if bad is None:
                wait_fs_tick(d)
                try:
                    uberjob.run(plan2, registry=reg2, progress=None, max_workers=W)
                except BaseException as e:
                    bad = f"repair run after process death at file operation {k}/{K} raised {e!r} (cause {e.__cause__!r}); directory: {sorted(os.listdir(d))}"
                counters["file_repair_runs"] += 1
                if bad is None:
                    st2 = state(stores2, names)
                    for n in names[1:]:
                        got = stores2[n].read()
                        if json.loads(json.dumps(got)) != json.loads(json.dumps(want[n])):
                            bad = f"after the repair run {n} holds {got!r}, from-scratch value is {want[n]!r} (cut at {k}/{K})"
                            break
                        if not o[n] and st2[n] != st[n]:
                            bad = f"{n} was completely written before the cut at file operation {k}/{K} and nothing upstream changed, yet the repair run rewrote it"
                            break
                    left = [f for f in os.listdir(d) if f.endswith(".STAGING")]
                    if bad is None and left and any(f[: -len(".STAGING")] in [os.path.basename(stores2[n].path) for n in names if o[n]] for f in left):
                        bad = f"staging files of rebuilt stores left behind after the repair run: {left}"
            if bad:
                sample["failing"] = {"k": k, "listing": sorted(os.listdir(d)), "state": {n: st[n] for n in names}, "ood": o}
            shutil.rmtree(d, ignore_errors=True)
            if bad:
                break
    finally:
        shutil.rmtree(base, ignore_errors=True)
    res = {"status": "ok", "counters": counters, "nontrivial": counters["file_cuts_hit"] > 2,
           "sig": hashlib.sha1(f"file|{shape}|{initial}|{W}|{desc['seed'] % 1000}".encode()).hexdigest()[:16]}
    if desc["seed"] % 4 == 0 or bad:
        res["sample"] = sample
    if bad:
        res.update(status="violation", detail=f"[file-backed {names} initial={initial} W={W}] {bad}", mechanism="cut-repair-file", witness=sample)
    return res
