def run_case(desc):
    return {"status": "ok", "counters": {"file_cases_placeholder": 1}, "nontrivial": False}
