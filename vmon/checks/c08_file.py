"""C08 'file' mode: real file-backed stores, process death (fork + os._exit) at every file operation of a whole run."""
import hashlib
import json
import os
import pickle
import random
import shutil
import tempfile
import time

from vmon import fsfault


import collections

CALLS = collections.Counter()  # executions of the plan's functions in THIS process (the repair / follow-up runs happen in the parent)


def f_b(a):
    CALLS["b"] += 1
    return {"b_of": a, "n": len(str(a))}


def f_c(b):
    CALLS["c"] += 1
    return ["c", b["n"] * 2, sorted(b)]  # depends on the LENGTH of a only: an update of a can rebuild c to identical content


def f_d(a, c):
    CALLS["d"] += 1
    return [a, list(c)]


def f_e(d, b):
    CALLS["e"] += 1
    return {"e": d, "bn": b["n"]}


VARIANT = {"empty_leaf": False}  # set per case by run_file (forked children inherit it)


def f_t(a):
    CALLS["t"] += 1
    return ""  # a complete, legal value: the empty text (an empty header, an empty log, "no warnings")


def build(d, shape, c_json=False, path_source=False):
    import uberjob
    from uberjob.stores import JsonFileStore, PathSource, PickleFileStore, TextFileStore

    plan = uberjob.Plan()
    reg = uberjob.Registry()
    P = lambda n: os.path.join(d, n)
    stores = {"a": JsonFileStore(P("a.json")), "b": JsonFileStore(P("b.json")), "c": JsonFileStore(P("c.json")) if c_json else PickleFileStore(P("c.pkl")),
              "d": JsonFileStore(P("d.json")), "e": JsonFileStore(P("e.json"))}
    a = reg.source(plan, stores["a"])
    b = plan.call(f_b, a)
    reg.add(b, stores["b"])
    c = plan.call(f_c, b)
    reg.add(c, stores["c"])
    nodes = {"a": a, "b": b, "c": c}
    if shape >= 1:
        dd = plan.call(f_d, a, c)
        reg.add(dd, stores["d"])
        nodes["d"] = dd
    if shape >= 2:
        e = plan.call(f_e, nodes["d"], b)
        reg.add(e, stores["e"])
        nodes["e"] = e
    deps = {"b": ["a"], "c": ["b"], "d": ["a", "c"], "e": ["d", "b"]}
    if VARIANT["empty_leaf"]:
        stores["t"] = TextFileStore(P("t.txt"))
        tt = plan.call(f_t, a)
        reg.add(tt, stores["t"])
        nodes["t"] = tt
        deps["t"] = ["a"]
    if path_source:
        # a second source: a file that b merely depends on (a PathSource, the same object for the whole history): b is out of date when that
        # file is newer. It is kept out of `nodes` (it is not computed) but has a store entry and a place in the dependency table.
        stores["p"] = PathSource(P("stamp.txt"))
        with open(P("stamp.txt"), "w") as f:
            f.write("stamp 0")
        os.utime(P("stamp.txt"), (1_000_000_000, 1_000_000_000))
        psrc = reg.source(plan, stores["p"])
        plan.add_dependency(psrc, b)
        deps["b"] = ["a", "p"]
    return plan, reg, stores, nodes, deps


def scratch_values(aval, names):
    v = {"a": aval}
    v["b"] = f_b(aval)
    v["c"] = f_c(v["b"])
    if "d" in names:
        v["d"] = json.loads(json.dumps(f_d(aval, v["c"])))
    if "e" in names:
        v["e"] = json.loads(json.dumps(f_e(v["d"], v["b"])))
    if "t" in names:
        v["t"] = ""
    return v


def state(stores, names):
    st = {}
    for n in list(names) + [k for k in stores if k == "p" and k not in names]:
        p = stores[n].path
        try:
            s = os.stat(p)
            st[n] = (s.st_mtime_ns, s.st_ino)
        except OSError:
            st[n] = None
    return st


def ood(st, deps, names):
    out = {}
    anc = {}
    if "p" in st:
        anc["p"] = set()
        out["p"] = st["p"] is None
    for n in names:
        if n == "a":
            out[n] = st[n] is None
            anc[n] = set()
            continue
        a = set()
        for p in deps[n]:
            a |= {p} | anc[p]
        anc[n] = a
        m = st[n]
        out[n] = m is None or any(out[x] for x in a) or any(st[x][0] > m[0] for x in a)
    return out


def wait_fs_tick(d):
    """wait until the file system clock has advanced past the newest file in d"""
    newest = max([os.stat(os.path.join(d, f)).st_mtime_ns for f in os.listdir(d)] or [0])
    probe = os.path.join(d, ".probe")
    for _ in range(2000):
        with open(probe, "w") as f:
            f.write("x")
        if os.stat(probe).st_mtime_ns > newest:
            break
        time.sleep(0.001)
    os.remove(probe)


class Turnstile:
    """Interleaves the file operations (open / write / close / rename) of several worker threads one operation at a time, in turn:
    all writers open their staging files before any of them writes, and so on. Waits are bounded (a timeout only weakens the
    enforcement of the interleaving, no verdict depends on it)."""

    def __init__(self, n, root):
        import threading

        self.n = n
        self.root = str(root)
        self.cv = threading.Condition()
        self.active = []
        self.turn = 0
        self.ops = []
        self.get_ident = threading.get_ident

    def before(self, name):
        import time as _t

        tid = self.get_ident()
        with self.cv:
            if tid not in self.active:
                self.active.append(tid)
                self.cv.notify_all()
                end = _t.monotonic() + 0.5
                while len(self.active) < self.n and _t.monotonic() < end:
                    self.cv.wait(0.05)
            end = _t.monotonic() + 0.3
            while self.active and self.active[self.turn % len(self.active)] != tid and _t.monotonic() < end:
                self.cv.wait(0.05)
            self.ops.append((self.active.index(tid), name))

    def after(self, name, leave=False):
        tid = self.get_ident()
        with self.cv:
            if tid in self.active:
                i = self.active.index(tid)
                if leave:
                    self.active.remove(tid)
                    self.turn = i
                else:
                    self.turn = i + 1
            self.cv.notify_all()

    def __enter__(self):
        import builtins

        ts = self
        self.saved = (builtins.open, os.replace)
        r_open, r_replace = self.saved

        class Proxy:
            def __init__(self, f):
                self._f = f

            def write(self, data):
                ts.before("write")
                try:
                    return self._f.write(data)
                finally:
                    ts.after("write")

            def close(self):
                if self._f.closed:
                    return
                ts.before("close")
                try:
                    return self._f.close()
                finally:
                    ts.after("close")

            def __enter__(self):
                return self

            def __exit__(self, *a):
                self.close()
                return False

            def __getattr__(self, name):
                return getattr(self._f, name)

        def shim_open(path, mode="r", *a, **kw):
            if isinstance(mode, str) and "w" in mode and str(os.fspath(path)).startswith(ts.root):
                ts.before("open")
                try:
                    return Proxy(r_open(path, mode, *a, **kw))
                finally:
                    ts.after("open")
            return r_open(path, mode, *a, **kw)

        def shim_replace(src, dst, *a, **kw):
            if str(os.fspath(dst)).startswith(ts.root):
                ts.before("replace")
                try:
                    return r_replace(src, dst, *a, **kw)
                finally:
                    ts.after("replace", leave=True)
            return r_replace(src, dst, *a, **kw)

        builtins.open = shim_open
        os.replace = shim_replace
        return self

    def __exit__(self, *a):
        import builtins

        builtins.open, os.replace = self.saved
        return False


def g1(a):
    return {"one": a, "pad": "j" * 300}


def g2(a):
    return ("two", a["v"], "p" * 500)


def g3(a):
    return "three:" + json.dumps(a) + "\n" + "t" * 200


def run_siblings(desc):
    """Independent stored values whose files are siblings in one directory (same stem, different extensions; or one name a prefix of
    the other) are written by different workers at the same time, their file operations interleaved one at a time. Each value
    must end up complete in its own file (no shared staging file), the run must succeed, and a second run must be silent."""
    import uberjob
    from uberjob.stores import JsonFileStore, PickleFileStore, TextFileStore

    rng = random.Random(desc["seed"])
    stem = rng.choice(["x", "summary", "v.1", "data.2021", "r"])
    kinds = rng.sample([("json", JsonFileStore, g1), ("pkl", PickleFileStore, g2), ("txt", TextFileStore, g3)], rng.choice([2, 3]))
    use_pathlib = rng.random() < 0.5
    base = tempfile.mkdtemp(prefix="vmon-c08s-")
    counters = {"sibling_cases": 1, "sibling_interleaved_ops": 0, "sibling_cases_all_opened_before_first_write": 0}
    bad = None
    try:
        plan = uberjob.Plan()
        reg = uberjob.Registry()
        A = JsonFileStore(os.path.join(base, "a.json"))
        aval = {"v": rng.randint(0, 99)}
        A.write(aval)
        a = reg.source(plan, A)
        sib = []
        for ext, cls, fn in kinds:
            name = f"{stem}.{ext}" if rng.random() < 0.85 else stem  # sometimes one file name is a prefix of the others
            if any(name == s_[0] for s_ in sib):
                name = f"{stem}.{ext}"
            import pathlib

            pth = os.path.join(base, name)
            st = cls(pathlib.Path(pth) if use_pathlib else pth)
            nd = plan.call(fn, a)
            reg.add(nd, st)
            sib.append((name, st, fn))
        wait_fs_tick(base)
        ts = Turnstile(len(sib), base)
        exc = None
        with ts:
            try:
                uberjob.run(plan, registry=reg, progress=None, max_workers=len(sib))
            except BaseException as e:
                exc = e
        counters["sibling_interleaved_ops"] = len(ts.ops)
        first_write = next((i for i, (t, n) in enumerate(ts.ops) if n == "write"), len(ts.ops))
        opened = {t for t, n in ts.ops[:first_write] if n == "open"}
        counters["sibling_cases_all_opened_before_first_write"] = int(len(opened) == len(sib))
        listing = sorted(os.listdir(base))
        if exc is not None:
            bad = f"run writing sibling files {[n for n, _, _ in sib]} concurrently raised {exc!r} (cause {exc.__cause__!r}); directory {listing}; operations {ts.ops[:16]}"
        else:
            for name, st, fn in sib:
                want = fn(aval)
                try:
                    got = st.read()
                except BaseException as e:
                    bad = f"sibling file {name} cannot be read after the run: {e!r}; operations {ts.ops[:16]}"
                    break
                if json.loads(json.dumps(got)) != json.loads(json.dumps(want)):
                    bad = f"sibling file {name} holds {str(got)[:80]!r}, expected {str(want)[:80]!r} (written concurrently with {[n for n, _, _ in sib if n != name]}); operations {ts.ops[:16]}"
                    break
            left = [f for f in listing if f.endswith(".STAGING")]
            if bad is None and left:
                bad = f"staging files left after a successful run: {left}"
            if bad is None:
                before = {f: os.stat(os.path.join(base, f)).st_mtime_ns for f in listing}
                uberjob.run(plan, registry=reg, progress=None, max_workers=2)
                after = {f: os.stat(os.path.join(base, f)).st_mtime_ns for f in sorted(os.listdir(base))}
                if before != after:
                    bad = f"a second run rewrote sibling files: {sorted(k for k in after if before.get(k) != after[k])}"
    finally:
        shutil.rmtree(base, ignore_errors=True)
    res = {"status": "ok", "counters": counters, "nontrivial": counters["sibling_cases_all_opened_before_first_write"] > 0,
           "sig": hashlib.sha1(f"siblings|{stem}|{[k[0] for k in kinds]}|{desc['seed'] % 1000}".encode()).hexdigest()[:16]}
    if bad:
        res.update(status="violation", detail=f"[file-backed siblings, {'pathlib' if use_pathlib else 'str'} paths] {bad}", mechanism=desc.get("mechanism", "cut-repair-file"), witness={"desc": desc})
    return res


def run_case(desc):
    import uberjob

    if desc.get("siblings"):
        return run_siblings(desc)
    rng = random.Random(desc["seed"])
    shape = rng.choice([0, 1, 2])
    names = ["a", "b", "c"] + (["d"] if shape >= 1 else []) + (["e"] if shape >= 2 else [])
    VARIANT["empty_leaf"] = desc["seed"] % 3 == 0  # one more stored value whose complete value is the EMPTY text (a zero-length file)
    if VARIANT["empty_leaf"]:
        names.append("t")
    initial = rng.choice(["empty", "stale_after_update", "partial"])
    W = rng.choice([1, 2])
    c_json = rng.random() < 0.5
    pad = "x" * rng.randint(0, 30)
    aval0 = {"v": rng.randint(10, 49), "pad": pad}
    # half of the updates change the source without changing its length: c (a function of the length only) is rebuilt to IDENTICAL content
    aval1 = {"v": rng.randint(50, 99), "pad": pad} if rng.random() < 0.5 else {"v": rng.randint(100, 199)}
    base = tempfile.mkdtemp(prefix="vmon-c08f-")
    counters = {"file_cases": 1, "file_cut_positions": 0, "file_cuts_hit": 0, "file_repair_runs": 0, "file_uptodate_checked": 0}
    bad = None
    sample = {"desc": desc, "shape": names, "initial": initial}
    try:
        # template directory with the initial state
        tmpl = os.path.join(base, "tmpl")
        os.mkdir(tmpl)
        plan, reg, stores, nodes, deps = build(tmpl, shape, c_json)
        stores["a"].write(aval0)
        aval = aval0
        if initial != "empty":
            wait_fs_tick(tmpl)
            uberjob.run(plan, registry=reg, progress=None, max_workers=1)
            wait_fs_tick(tmpl)
            if initial == "stale_after_update":
                stores["a"].write(aval1)
                aval = aval1
            else:
                victim = rng.choice(names[1:])
                os.remove(stores[victim].path)
        wait_fs_tick(tmpl)
        want = scratch_values(aval, names)

        def fresh_dir(tag):
            d = os.path.join(base, tag)
            shutil.copytree(tmpl, d, copy_function=shutil.copy2)
            for f in os.listdir(tmpl):  # copy2 keeps mtimes; keep directory listing identical
                pass
            return d

        # counted run in a forked child (so the parent's state is untouched)
        d = fresh_dir("count")
        r_, w_ = os.pipe()
        pid = os.fork()
        if pid == 0:
            try:
                plan_, reg_, *_ = build(d, shape, c_json)
                pl = fsfault.Plan()
                with fsfault.Shim(pl, d):
                    uberjob.run(plan_, registry=reg_, progress=None, max_workers=W)
                os.write(w_, str(pl.count).encode())
            finally:
                os._exit(0)
        os.close(w_)
        os.waitpid(pid, 0)
        K = int(os.read(r_, 64) or b"0")
        os.close(r_)
        shutil.rmtree(d, ignore_errors=True)
        sample["K"] = K
        if K == 0:
            return {"status": "inconclusive", "detail": "counted file-backed run performed no file operation"}
        for k in range(1, K + 1):
            d = fresh_dir(f"k{k}")
            counters["file_cut_positions"] += 1
            pid = os.fork()
            if pid == 0:
                try:
                    plan_, reg_, *_ = build(d, shape, c_json)
                    pl = fsfault.Plan(k=k, action="exit")
                    with fsfault.Shim(pl, d):
                        try:
                            uberjob.run(plan_, registry=reg_, progress=None, max_workers=W)
                        except BaseException:
                            pass
                finally:
                    os._exit(0)
            _, status = os.waitpid(pid, 0)
            if os.WIFEXITED(status) and os.WEXITSTATUS(status) == 137:
                counters["file_cuts_hit"] += 1
            plan2, reg2, stores2, nodes2, deps2 = build(d, shape, c_json)
            st = state(stores2, names)
            o = ood(st, deps2, names)
            for n in names[1:]:
                if not o[n]:
                    counters["file_uptodate_checked"] += 1
                    try:
                        got = stores2[n].read()
                        if isinstance(got, tuple):
                            got = tuple(got)
                    except BaseException as e:
                        bad = f"after process death at file operation {k}/{K}: {n} would be treated as up to date but cannot be read: {e!r}"
                        break
                    if got != want[n] and json.loads(json.dumps(got)) != json.loads(json.dumps(want[n])):
                        bad = f"after process death at file operation {k}/{K}: {n} would be treated as up to date but holds {got!r}, from-scratch value is {want[n]!r}"
                        break
            want_k, o_k = want, o
            if bad is None and k % 3 == 0:
                # before the repair run the source changes to a SHORTER value: everything downstream is out of date again and every file that
                # is rewritten becomes shorter than what the killed run may have left in its staging files
                wait_fs_tick(d)
                aval_s = {"v": rng.randint(1, 9)}
                stores2["a"].write(aval_s)
                want_k = scratch_values(aval_s, names)
                o_k = {n: True for n in names}
                counters["file_repairs_after_shrinking_update"] = counters.get("file_repairs_after_shrinking_update", 0) + 1
            if bad is None:
                wait_fs_tick(d)
                try:
                    uberjob.run(plan2, registry=reg2, progress=None, max_workers=W)
                except BaseException as e:
                    bad = f"repair run after process death at file operation {k}/{K} raised {e!r} (cause {e.__cause__!r}); directory: {sorted(os.listdir(d))}"
                counters["file_repair_runs"] += 1
                if bad is None:
                    st2 = state(stores2, names)
                    for n in names[1:]:
                        try:
                            got = stores2[n].read()
                        except BaseException as e:
                            bad = f"after the repair run {n} cannot be read: {e!r} (cut at {k}/{K}; directory {sorted(os.listdir(d))})"
                            break
                        if json.loads(json.dumps(got)) != json.loads(json.dumps(want_k[n])):
                            bad = f"after the repair run {n} holds {got!r}, from-scratch value is {want_k[n]!r} (cut at {k}/{K})"
                            break
                        if not o_k[n] and st2[n] != st[n]:
                            bad = f"{n} was completely written before the cut at file operation {k}/{K} and nothing upstream changed, yet the repair run rewrote it"
                            break
                    if bad is None:
                        # nothing changed since the repair run: one more run performs no call and rewrites nothing
                        calls0 = dict(CALLS)
                        uberjob.run(plan2, registry=reg2, progress=None, max_workers=W)
                        counters["file_silent_rerun_checks"] = counters.get("file_silent_rerun_checks", 0) + 1
                        if dict(CALLS) != calls0:
                            again = {k_: CALLS[k_] - calls0.get(k_, 0) for k_ in CALLS if CALLS[k_] != calls0.get(k_, 0)}
                            bad = (f"a run repeated right after the successful repair run (cut at {k}/{K}) recomputed {again}: values rebuilt to identical "
                                   f"content must still count as rebuilt")
                        elif state(stores2, names) != st2:
                            bad = f"a run repeated right after the successful repair run (cut at {k}/{K}) rewrote files"
                    left = [f for f in os.listdir(d) if f.endswith(".STAGING")]
                    if bad is None and left and any(f[: -len(".STAGING")] in [os.path.basename(stores2[n].path) for n in names if o[n]] for f in left):
                        bad = f"staging files of rebuilt stores left behind after the repair run: {left}"
            if bad:
                sample["failing"] = {"k": k, "listing": sorted(os.listdir(d)), "state": {n: st[n] for n in names}, "ood": o}
            shutil.rmtree(d, ignore_errors=True)
            if bad:
                break
    finally:
        shutil.rmtree(base, ignore_errors=True)
    res = {"status": "ok", "counters": counters, "nontrivial": counters["file_cuts_hit"] > 2,
           "sig": hashlib.sha1(f"file|{shape}|{initial}|{W}|{desc['seed'] % 1000}".encode()).hexdigest()[:16]}
    if desc["seed"] % 4 == 0 or bad:
        res["sample"] = sample
    if bad:
        res.update(status="violation", detail=f"[file-backed {names} initial={initial} W={W}] {bad}", mechanism="cut-repair-file", witness=sample)
    return res
