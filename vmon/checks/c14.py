"""C14 - a dry run touches nothing and returns a faithful, self-contained physical plan."""
import collections
import hashlib
import random

from vmon import env, history, ir as irmod, regmodel, vstore

ID = "C14"
LEVEL = "exploration"
RULE = (
    "cases = store states reached by seeded histories (as C03) x output x fresh_time; (1) run(dry_run=True) must stamp no "
    "call/read/write event (modified-time queries only) and leave every store unchanged; (2) differential: from the same "
    "restored state, executing ALL nodes of the returned physical plan with no registry vs the real run must give the "
    "same multiset of call executions, store reads, writes and producer side-writes, the same final store contents and "
    "the same output (W and scheduler varied independently on both sides); non-trivial = the dry plan contained both "
    "store reads and store writes; distinct by (structure, state, output, fresh_time)"
)
ASSUMPTIONS = ["stores are in-memory logical-clock stores whose state can be snapshotted and restored exactly"]


def gen_cases(tier, seed):
    n = 700 if tier == "quick" else 20000
    out = []
    for i in range(n):
        s = env.seed_for(seed, ID, tier, i)
        r = random.Random(env.seed_for(s, "descriptor"))  # independent of the stream run_case derives from the same seed
        out.append({"seed": s, "n": r.randint(2, 20 if tier == "quick" else 50), "steps": r.randint(0, 8)})
    for i in range(n // 7):
        out.append({"seed": env.seed_for(seed, ID, tier, "file", i), "mode": "file"})
    for i in range(max(20, n // 50)):
        out.append({"seed": env.seed_for(seed, ID, tier, "literal_dry", i), "mode": "literal_dry"})
    return out


def multiset(S):
    execs, reads, writes, side, mts = S.observed()
    return {"calls": dict(execs), "reads": dict(reads), "writes": dict(writes), "side": dict(side)}


def contents(S):
    return {i: st.content for i, st in S.stores.items()}


def same_contents(a, b):
    for i in a:
        x, y = a[i], b[i]
        if (x is vstore.MISSING) != (y is vstore.MISSING):
            return f"store s{i}: present in one run only"
        if x is not vstore.MISSING and not irmod.struct_eq(x, y):
            return f"store s{i}: {irmod.canon(x)[:100]} vs {irmod.canon(y)[:100]}"
    return None


def _passthrough(*a):
    return a[0] if a else None


def run_file(desc):
    """Dry run over REAL file-backed stores: the directory (names, bytes, mtimes, inodes - including staging files a killed writer left
    behind and unrelated files) must be exactly what it was; only modified times may be asked for."""
    import datetime as dt
    import os
    import shutil
    import tempfile

    import uberjob
    from vmon.checks import c08_file

    rng = random.Random(desc["seed"])
    shape = rng.choice([0, 1, 2])
    d = tempfile.mkdtemp(prefix="vmon-c14f-")
    try:
        plan, reg, stores, nodes, deps = c08_file.build(d, shape)
        names = list(nodes)
        read_log = []
        if rng.random() < 0.5:
            # an extra source that is a SUBCLASS of a bundled store, with its read() logged: the stale check may only ask for modified times
            from uberjob.stores import LiteralSource, ModifiedTimeSource, PathSource

            kind = rng.choice(["mts", "lit", "path"])
            if kind == "mts":
                class LoggedMTS(ModifiedTimeSource):
                    def read(self):
                        read_log.append("ModifiedTimeSource.read")
                        return ModifiedTimeSource.read(self)
                extra_store = LoggedMTS(dt.datetime(2020, 1, 1))
            elif kind == "lit":
                class LoggedLit(LiteralSource):
                    def read(self):
                        read_log.append("LiteralSource.read")
                        return LiteralSource.read(self)
                extra_store = LoggedLit(5, dt.datetime(2020, 1, 1))
            else:
                class LoggedPath(PathSource):
                    def read(self):
                        read_log.append("PathSource.read")
                        return PathSource.read(self)
                extra_store = LoggedPath(os.path.join(d, "a.json"))
            xs = reg.source(plan, extra_store)
            xn = plan.call(lambda v: 1, xs)
            plan.add_dependency(xn, nodes["b"])
        initial = rng.choice(["empty", "built", "stale", "partial"])
        stores["a"].write({"v": 1})
        if initial != "empty":
            c08_file.wait_fs_tick(d)
            uberjob.run(plan, registry=reg, progress=None, max_workers=1)
            if initial == "stale":
                c08_file.wait_fs_tick(d)
                stores["a"].write({"v": 2})
            elif initial == "partial":
                os.remove(stores[rng.choice(names[1:])].path)
        leftovers = []
        for n in names:
            if rng.random() < 0.5:
                lp = str(stores[n].path) + ".STAGING"
                with open(lp, "wb") as f:
                    f.write(b"partial write of a killed process " * rng.randint(0, 3))
                leftovers.append(os.path.basename(lp))
        with open(os.path.join(d, "unrelated.txt"), "w") as f:
            f.write("x")

        def snap():
            out = {}
            for nm in sorted(os.listdir(d)):
                st_ = os.stat(os.path.join(d, nm))
                with open(os.path.join(d, nm), "rb") as f:
                    out[nm] = (f.read(), st_.st_mtime_ns, st_.st_ino)
            return out

        before = snap()
        del read_log[:]  # the runs that built the initial state legitimately read the source
        out_node = rng.choice([None] + [nodes[n] for n in names])
        fresh = rng.choice([None, None, dt.datetime.now(), dt.datetime(2001, 1, 1)])
        exc = None
        try:
            uberjob.run(plan, registry=reg, output=out_node, dry_run=True, progress=None, max_workers=rng.choice([1, 3]), fresh_time=fresh)
        except BaseException as e:
            exc = e
        after = snap()
        bad = None
        if exc is not None:
            return {"status": "inconclusive", "detail": f"file-backed dry run raised {exc!r}"}
        if read_log:
            bad = f"[file-backed] a dry run read a store: {read_log} (it may only ask stores for their modified times)"
        elif before != after:
            gone = sorted(set(before) - set(after))
            new = sorted(set(after) - set(before))
            changed = sorted(k for k in before if k in after and before[k] != after[k])
            bad = f"[file-backed, initial={initial}, leftovers={leftovers}] a dry run changed the store directory: removed {gone}, created {new}, modified {changed}"
        res = {"status": "ok", "counters": {"file_dry_runs": 1, "file_dry_runs_with_leftover_staging": int(bool(leftovers))}, "nontrivial": bool(leftovers),
               "sig": f"file|{shape}|{initial}|{sorted(leftovers)}"}
        if bad:
            res.update(status="violation", detail=bad, mechanism="dry-run", witness={"before": sorted(before), "after": sorted(after)})
        return res
    finally:
        shutil.rmtree(d, ignore_errors=True)


def run_literal_dry(desc):
    """A dry run executes NO call - not the library's own structural calls either (gather, unpack, item access): literals that are user objects
    with observable iteration / indexing / hashing, and a one-shot iterable, are untouched by the dry run; the real run afterwards works."""
    import operator

    import uberjob

    rng = random.Random(desc["seed"])
    log = []

    class Seq:
        def __init__(self, items):
            self.items = items

        def __iter__(self):
            log.append("iter")
            return iter(self.items)

        def __getitem__(self, i):
            log.append(("getitem", i))
            return self.items[i]

        def __len__(self):
            log.append("len")
            return len(self.items)

    class Key:
        def __init__(self, k):
            self.k = k

        def __hash__(self):
            log.append("hash")
            return hash(self.k)

        def __eq__(self, o):
            return isinstance(o, Key) and o.k == self.k

    def one_shot():
        log.append("generator started")
        yield 1
        yield 2

    plan = uberjob.Plan()
    registry = uberjob.Registry() if rng.random() < 0.5 else None
    seq = plan.lit(Seq([10, 20, 30]))
    a, b, c = plan.unpack(seq, 3)
    item = plan.call(operator.getitem, plan.lit(Seq([5, 6])), 1)
    keyed = plan.gather({plan.lit(Key("k")): 1, "plain": [plan.lit(Key("m"))]}) if rng.random() < 0.7 else plan.lit(0)
    gen = plan.lit(one_shot())
    g1, g2 = plan.unpack(gen, 2)
    total = plan.call(lambda *xs: sum(xs), a, b, c, item, g1, g2)
    output = rng.choice([total, [total, keyed], {"t": total, "k": keyed}])
    kw = dict(output=output, registry=registry, progress=None, max_workers=rng.choice([1, 2]))
    bad = None
    try:
        uberjob.run(plan, dry_run=True, **kw)
    except BaseException as e:
        bad = f"dry run raised {e!r}"
    if bad is None and log:
        bad = f"the dry run iterated / indexed / hashed the caller's literal objects: {log[:6]} (it executes no call, not the library's structural ones either)"
    if bad is None:
        try:
            got = uberjob.run(plan, **kw)
            t_ = got if not isinstance(got, (list, dict)) else (got[0] if isinstance(got, list) else got["t"])
            if t_ != 10 + 20 + 30 + 6 + 1 + 2:
                bad = f"the real run after the dry run returned {t_!r} (expected 69)"
        except BaseException as e:
            bad = f"the real run after the dry run raised {e!r} (cause {e.__cause__!r}) - the dry run used up something"
    plain_checked = 0
    if bad is None:
        # an output that contains no symbolic node at all (a constant, an empty list of requested nodes, a plain structure), alone or next to nodes: the plan and
        # output node the dry run returns, executed by themselves, yield what the real run yields
        plan2 = uberjob.Plan()
        x = plan2.call(operator.add, 1, 2)
        reg2 = uberjob.Registry() if rng.random() < 0.5 else None
        for plain in (7, [], {}, {"rows": (1, 2, 3)}, "text", (), [1, [2, {"k": None}]], [[], x], {"n": x, "c": 7}):
            kw2 = dict(output=plain, registry=reg2, progress=None, max_workers=1)
            try:
                real = uberjob.run(plan2, **kw2)
                dp, dn = uberjob.run(plan2, dry_run=True, **kw2)
                alone = uberjob.run(dp, output=dn, progress=None, max_workers=1)
            except BaseException as e:
                bad = f"output={plain!r}: {e!r}"
                break
            plain_checked += 1
            if alone != real or type(alone) is not type(real):
                bad = (f"output={plain!r} (no symbolic node in it): the real run returns {real!r}, but executing the plan and output node returned by the dry run "
                       f"(output node {dn!r:.60}) yields {alone!r}")
                break
    r_ = {"status": "ok", "counters": {"dry_runs": 1, "literal_object_dry_runs": 1, "plain_outputs_dry_vs_real": plain_checked}, "nontrivial": True, "sig": f"litdry|{desc['seed'] % 100000}"}
    if bad:
        r_.update(status="violation", mechanism="dry-run", detail=f"[literals that are user objects / plain outputs, registry={'yes' if registry is not None else 'no'}] {bad}")
    return r_


def run_case(desc):
    import uberjob

    if desc.get("mode") == "file":
        return run_file(desc)
    if desc.get("mode") == "literal_dry":
        return run_literal_dry(desc)
    problems, stats, S, log = history.run_history(desc, props=())
    if problems:
        return {"status": "ok", "counters": {"prefix_histories_cut_short": 1}, "nontrivial": False}
    rng = random.Random(desc["seed"] ^ 0xD27)
    # perturb the state a little so that dry plans contain both reads and writes
    for _ in range(rng.randint(0, 3)):
        ps = [i for i in S.reg if S.rp.role[i] == "psrc"]
        dl = [i for i in S.reg if S.rp.role[i] in ("stored", "dsrc", "slit")]
        if ps and rng.random() < 0.5:
            i = rng.choice(ps)
            S.src_version[i] += 1
            S.stores[i].set_content(irmod.Val(("src", i), S.src_version[i]))
        elif dl:
            S.delete(rng.choice(dl))
    timeless = None
    if desc["seed"] % 6 == 1:
        # a pure source that holds a value but reports no modified time (a store kind that does not track one): out of date, like a missing
        # one - which the real run finds out by reading it when a consumer executes, and the dry run must not find out at all
        ps = [i for i in S.reg if S.rp.role[i] == "psrc" and S.stores[i].mtick is not None]
        if ps:
            timeless = rng.choice(ps)
            S.stores[timeless].mtick = None
    out_ids = history.choose_out(rng, S)
    fresh = history.choose_fresh(rng, S)
    snap = S.snapshot()
    state_before = S.state_desc()
    bad = None
    if desc["seed"] % 6 == 3:
        # a source that the registry given to run does NOT cover (it was sourced through another registry): the real run fails at that source -
        # having done, with max_errors=None, everything that does not depend on it; and so does the dry run's plan executed alone
        ps = [i for i in S.reg if S.rp.role[i] == "psrc" and S.argsucc[i]]
        if ps:
            victim = rng.choice(ps)
            reg2 = S.registry.copy()
            del reg2.mapping[S.ir.nodes[victim].node]
            downstream = {victim}
            st_ = [victim]
            while st_:
                u_ = st_.pop()
                for m_ in S.succs[u_]:
                    if m_ not in downstream:
                        downstream.add(m_)
                        st_.append(m_)
            upstream = {victim}
            st_ = [victim]
            while st_:
                u_ = st_.pop()
                for m_ in S.preds[u_]:
                    if m_ not in upstream:
                        upstream.add(m_)
                        st_.append(m_)
            # fresh_time just after every stored value: everything registered is out of date whichever registry is given, so what the full
            # registry's expectation says about calls UNRELATED to the uncovered source (neither above nor below it) holds for this run too
            fresh = S.clock.now() + 0.5
            exp_ = S.expect(out_ids, fresh)
            related = downstream | upstream
            # the expectation restricted to REASONS that are unrelated to the uncovered source: an unregistered call counts only when something
            # unrelated and out of date (or an unrelated requested output) needs it
            O_ = set(regmodel.ids_of(out_ids))
            need_ = set()
            for n_ in reversed(S.ir.nodes):
                i_ = n_.id
                if i_ in S.reg or i_ in related:
                    continue
                if i_ in O_ or any(((m_ in S.reg and m_ not in related and exp_.ood[m_]) or m_ in need_) for m_ in S.succs[i_]):
                    need_.add(i_)
            indep_calls = {i for i in need_ if S.ir.nodes[i].kind == "call"} | {i for i in S.reg if i not in related and S.rp.role[i] == "stored" and exp_.ood[i]}
            indep_calls &= set(exp_.execs)
            indep_writes = {S.store_name[i] for i in exp_.writes if i not in related}
            W_ = rng.choice([1, 4])
            resR, excR = S.run(out_ids, W=W_, fresh_tick=fresh, registry=reg2, max_errors=None)
            execsR, readsR, writesR, sideR, _ = S.observed()
            r_ = {"status": "ok", "counters": {"dry_runs": 0, "uncovered_source_runs": 1, "uncovered_source_independent_calls": len(indep_calls)}, "nontrivial": bool(indep_calls),
                  "sig": hashlib.sha1(("\n".join(S.describe(200)) + f"|uncovered|{victim}|{out_ids}|{fresh}").encode()).hexdigest()[:16]}
            missing_c = sorted(indep_calls - set(execsR))
            missing_w = sorted(indep_writes - set(writesR))
            if missing_c or missing_w:
                r_.update(status="violation", mechanism="dry-run", witness={"plan": S.describe(200), "prefix": log, "state": state_before, "out": out_ids},
                          detail=f"source n{victim} is not covered by the registry given to run: the run fails there ({repr(excR)[:80]}) - but with max_errors=None it first "
                                 f"performs everything that does not depend on that source; never executed: calls {missing_c[:8]}, writes {missing_w[:8]}")
            return r_
    if desc["seed"] % 6 == 2 and S.store_name:
        # a registered store whose modified time cannot be determined (OSError: the file's directory is gone, the mount is down): the real run
        # fails while planning, before any call or store access - and so must the dry run; it may not hand back a plan the real run never executes
        victim = rng.choice(sorted(S.store_name.values()))

        def mt_fails(kind, st):
            if kind == "mt" and st.name == victim:
                raise FileNotFoundError(2, f"cannot stat the file behind {st.name}")

        S.H.store_hook = mt_fails
        try:
            resD, excD = S.run(out_ids, W=rng.choice([1, 4]), fresh_tick=fresh, dry_run=True)
            askedD = any(k == "mt_raise" for s, k, key, tid, x in S.H.events)
            S.restore(snap)
            resR, excR = S.run(out_ids, W=rng.choice([1, 4]), fresh_tick=fresh)
            askedR = any(k == "mt_raise" for s, k, key, tid, x in S.H.events)
            touchedR = [(k, key) for s, k, key, tid, x in S.H.events if k not in ("mt", "mt_end", "mt_raise")]
        finally:
            S.H.store_hook = None
        r_ = {"status": "ok", "counters": {"dry_runs": 1, "failing_mtime_dry_runs": int(askedD or askedR)}, "nontrivial": askedR,
              "sig": hashlib.sha1(("\n".join(S.describe(200)) + f"|mtfail|{victim}|{out_ids}|{fresh}").encode()).hexdigest()[:16]}
        if (excD is None) != (excR is None):
            r_.update(status="violation", mechanism="dry-run", witness={"plan": S.describe(200), "prefix": log, "state": state_before, "out": out_ids, "fresh": fresh},
                      detail=f"the modified time of {victim} cannot be determined (FileNotFoundError): the real run -> {repr(excR)[:90]} (store/call events: {touchedR[:6]}), "
                             f"the dry run from the same state -> {'returned a physical plan' if excD is None else repr(excD)[:90]}")
        return r_
    # (1) the dry run itself. One case in five: every store's first modified-time query of a run fails transiently and retry=2 is given -
    # to the dry run exactly as to the real run
    flaky_mt = desc["seed"] % 5 == 0
    rkw = {}
    if desc["seed"] % 7 < 2:
        # a transform_physical that works on a copy: the dry run must hand back the TRANSFORMED plan, as the real run executes it
        def _tp(p_, o_):
            q_ = p_.copy()
            new_ = q_.call(_passthrough, o_) if o_ is not None else q_.call(_passthrough)
            return q_, new_

        rkw["transform_physical"] = _tp
    exp = S.expect(out_ids, fresh)
    if flaky_mt:
        rkw["retry"] = 2
        seen_mt = set()

        def hook(kind, st):
            if kind == "mt" and st.name not in seen_mt:
                seen_mt.add(st.name)
                raise vstore.StoreFault(f"transient failure of get_modified_time on {st.name}")

        S.H.store_hook = hook
    res, exc = S.run(out_ids, W=rng.choice([1, 4]), sched=rng.choice(["default", "random"]), fresh_tick=fresh, dry_run=True, **rkw)
    S.H.store_hook = None
    if exc is not None:
        if flaky_mt:
            seen_mt.clear()
            S.H.store_hook = hook
            S.restore(snap)
            rB, excB = S.run(out_ids, W=1, fresh_tick=fresh, **rkw)
            S.H.store_hook = None
            if excB is None:
                return {"status": "violation", "mechanism": "dry-run", "detail": f"with retry=2 and every first modified-time query failing transiently the real run succeeds "
                        f"but the dry run raised {exc!r} (cause {exc.__cause__!r})", "witness": {"plan": S.describe(60)}, "counters": {"dry_runs": 1, "flaky_mtime_dry_runs": 1}}
        return {"status": "inconclusive", "detail": f"dry run raised {exc!r}"}
    touched = [(k, key) for s, k, key, tid, x in S.H.events if k not in ("mt", "mt_end", "mt_raise")]
    if touched:
        bad = f"dry run executed/accessed: {touched[:8]}"
    elif S.state_desc() != state_before or same_contents(contents(S), {i: s[0] for i, s in snap[0].items()}):
        bad = "dry run changed store state"
    n_reads = n_writes = 0
    if bad is None:
        pplan, out_node = res
        for nd in pplan.graph.nodes():
            fn = getattr(nd, "fn", None)
            if fn is not None and getattr(fn, "__name__", "") == "read" and "VStore" in getattr(fn, "__qualname__", ""):
                n_reads += 1
            if fn is not None and getattr(fn, "__name__", "") == "write" and "VStore" in getattr(fn, "__qualname__", ""):
                n_writes += 1
        if desc["seed"] % 4 == 0:
            # looking at the returned plan (render) must not change what executing it does
            import shutil as _sh

            if _sh.which("dot") is not None:
                try:
                    uberjob.render((pplan, out_node) if out_node is not None else pplan, level=rng.choice([0, 1, 2, None]), format="dot")
                except BaseException:
                    pass
        # (2a) execute the physical plan alone, all nodes, no registry
        S.restore(snap)
        S.H.reset()
        all_nodes = list(pplan.graph.nodes())
        output = [out_node, all_nodes] if out_node is not None else [None, all_nodes]
        excA = None
        try:
            random.seed(desc["seed"] & 0xFFFF)
            rA = uberjob.run(pplan, output=output, max_workers=rng.choice([1, 2, 8]), scheduler=rng.choice(["default", "random"]), progress=None)
        except BaseException as e:
            excA = e
        msA, stA = multiset(S), contents(S)
        orderA = None
        if excA is None and not flaky_mt and "transform_physical" not in rkw:
            # the plan executed alone honours the same orderings as a real run (write, read back, then consumers; dependent sources after what
            # they depend on): the C09 ordering checker on THIS execution's history
            try:
                orderA = history.c09_check(S, exp, out_ids, rA[0] if out_ids is not None else None)[0]
            except Exception as e:  # the checker presumes a complete run of the expected operations
                orderA = None
        # (2b) the real run from the same state
        S.restore(snap)
        rB, excB = S.run(out_ids, W=rng.choice([1, 2, 8]), sched=rng.choice(["default", "random"]), fresh_tick=fresh,
                         **({"transform_physical": rkw["transform_physical"]} if "transform_physical" in rkw else {}))
        msB, stB = multiset(S), contents(S)
        if excA is not None or excB is not None:
            if not (excA is not None and excB is not None):
                bad = f"physical plan alone -> {excA!r}; real run -> {excB!r}"
        else:
            # besides agreeing with each other, both must be what the store state dictates (out-of-date oracle): e.g. nothing may depend on the wall clock
            want_ms = {"calls": {i: 1 for i in exp.execs}, "reads": dict(collections.Counter(S.store_name[i] for i in exp.reads)),
                       "writes": dict(collections.Counter(S.store_name[i] for i in exp.writes)), "side": dict(collections.Counter(S.store_name[i] for i in exp.side))}
            if msA != want_ms and not flaky_mt:
                bad = f"executing the dry run's physical plan performed {msA}, but the store state (out-of-date oracle) requires {want_ms}"
            elif orderA and msA == want_ms:
                bad = f"executing the dry run's physical plan alone: {orderA}"
            elif msA != msB:
                bad = f"event multisets differ: physical plan alone {msA} vs real run {msB}"
            else:
                d = same_contents(stA, stB)
                if d:
                    bad = "final store contents differ: " + d
                elif out_ids is not None and not irmod.struct_eq(rA[0], rB):
                    bad = f"outputs differ: physical plan alone {irmod.canon(rA[0])[:150]} vs real run {irmod.canon(rB)[:150]}"
                elif out_ids is None and rB is not None:
                    bad = f"real run without output returned {rB!r}"
    counters = {"flaky_mtime_dry_runs": int(flaky_mt), "timeless_source_dry_runs": int(timeless is not None), "dry_runs": 1, "dry_plans_with_reads_and_writes": int(n_reads > 0 and n_writes > 0), "dry_plan_reads": n_reads,
                "dry_plan_writes": n_writes, "differentials": int(bad is None)}
    res_ = {"status": "ok", "counters": counters, "nontrivial": n_reads > 0 and n_writes > 0,
            "sig": hashlib.sha1(("\n".join(S.describe(200)) + f"|{state_before}|{out_ids}|{fresh}").encode()).hexdigest()[:16]}
    if desc["seed"] % 200 == 0 or bad:
        res_["sample"] = {"desc": desc, "plan": S.describe(12), "state": state_before, "out": out_ids, "fresh": fresh,
                          "dry_plan_reads": n_reads, "dry_plan_writes": n_writes}
    if bad:
        res_.update(status="violation", detail=bad, mechanism="dry-run", witness={"plan": S.describe(200), "prefix": log, "state": state_before,
                                                                                 "out": out_ids, "fresh": fresh})
    return res_


def finalize(agg, tier):
    c = agg.counters
    reasons = []
    if c["dry_plans_with_reads_and_writes"] < 50:
        reasons.append("fewer than 50 dry plans with both reads and writes")
    return reasons
