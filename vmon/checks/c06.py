"""C06 - nothing downstream of a failed call runs; the raised error names a real failure."""
import hashlib
import random

from vmon import env, plainrun

ID = "C06"
LEVEL = "exploration"
RULE = (
    "cases = seeded random plans x failing subsets (1 .. all calls; Exception and BaseException subclasses, "
    "KeyboardInterrupt/SystemExit/GeneratorExit raised inside worker threads) x max_errors x max_workers x scheduler x "
    "retry x schedule driver (bytecode-granular yield injection); oracle: history checker (no start of a call whose "
    "ancestor failed), run raises CallError, err.call is a call that recorded a raise in this run, err.__cause__ IS the "
    "recorded exception object (last attempt), with one worker err.call is the first failure of the history; "
    "non-trivial = a failing call had dependents and the run continued past the first failure (max_errors>0/None or W>1); "
    "distinct by (plan, failing set, W, scheduler, max_errors)"
)
ASSUMPTIONS = [
    "every injected exception is a distinct object remembered by identity under the harness lock",
    "a call counts as failed when its last allowed attempt raised",
]


def gen_cases(tier, seed):
    n = 2000 if tier == "quick" else 30000
    out = []
    for i in range(n):
        s = env.seed_for(seed, ID, tier, i)
        r = random.Random(env.seed_for(s, "descriptor"))  # independent of the stream run_case derives from the same seed
        ncalls = r.randint(1, 30 if tier == "quick" else 80)
        W = plainrun.pick_W(r, ncalls)
        d = {"seed": s, "n": ncalls, "W": W, "sched": r.choice(["default", "random"]),
             "cfg": {"out": r.choice(["all", "sinks", "struct", "node"])},
             "perturb": r.choice(["instr", "instr", "none"]) if W > 1 else "none",
             "max_errors": r.choice([0, 0, 1, 2, 5, None]),
             "faults": {"kinds": r.choice([["exc"], ["exc", "value", "callerr"], ["base"], ["kbi", "sysexit", "genexit"], ["exc", "base", "kbi", "value", "callerr"], ["callerr"],
                                            ["exc", "base", "falsy", "sysexit"], ["falsy", "falsybase", "value"], ["listargs", "exc"], ["listargs"], ["ctorargs"], ["ctorargs", "exc"]])}}
        if r.random() < 0.12:
            # one call at a time, several failures of different kinds, the run allowed to go on: "it is the first call that failed"
            d.update(W=1, perturb="none", max_errors=r.choice([None, None, 2, 5]))
            d["faults"] = {"kinds": r.choice([["exc", "base", "kbi", "sysexit", "value"], ["exc", "base"], ["value", "genexit", "falsy"]]), "count": r.randint(2, 6)}
            if r.random() < 0.3:
                # ... dozens of failures in one run (wide plans, most calls independent of each other): it is still the FIRST that is reported
                d.update(n=r.randint(30, 70), family=r.choice(["disconnected", "layers", "join"]), max_errors=r.choice([None, None, 100]))
                d["faults"] = {"kinds": r.choice([["exc"], ["exc", "value", "base"]]), "p": r.choice([0.7, 0.9, 1.0])}
                d["many_failures"] = True
            out.append(d)
            continue
        if r.random() < 0.4:
            d["faults"]["count"] = r.choice([1, 1, 2, 3, ncalls])
        else:
            d["faults"]["p"] = r.choice([0.05, 0.2, 0.5, 1.0])
        if r.random() < 0.2:
            d["retry"] = r.choice([2, 3])
            d["faults"]["flaky"] = r.random() < 0.5
        if r.random() < (0.3 if "listargs" in d["faults"]["kinds"] else 0.06):
            d["display"] = (r.choice(["html", "html", "html_in_list", "html_and_null"]), r.choice(["bytesio_write", "returns_true", "returns_obj"]))
        out.append(d)
    for i in range(max(20, n // 60)):
        # calls of C-implemented functions that fail (no Python frame of their own), with and without retry (built-in, and custom decorators that
        # add no frame either): the reported call is that call and its cause is what the function raised
        s = env.seed_for(seed, ID, tier, "builtin_fail", i)
        r = random.Random(env.seed_for(s, "descriptor"))
        out.append({"seed": s, "mode": "builtin_fail", "n": r.randint(1, 5), "W": r.choice([1, 2, 4]), "sched": r.choice(["default", "random"]),
                    "retry": r.choice([None, 2, 3, "noframe", "noframe"]), "max_errors": r.choice([0, None])})
    for i in range(max(24, n // 80)):
        # unusual failing calls: (a) a failing call with more than a thousand levels of transitive dependents below it; (b) a failing call whose
        # function object (or a scope value) has a __repr__ that raises
        s = env.seed_for(seed, ID, tier, "odd_failures", i)
        r = random.Random(env.seed_for(s, "descriptor"))
        out.append({"seed": s, "mode": "odd_failures", "what": ["deep_dependents", "bad_repr_fn", "bad_repr_scope", "bad_repr_fn"][i % 4], "W": r.choice([1, 1, 2, 4]),
                    "sched": r.choice(["default", "random"]), "max_errors": r.choice([0, None, 1]), "depth": r.choice([1100, 1400, 2200]), "extra": r.randint(0, 5)})
    for i in range(n // 8):
        # registry runs: a plan function (often the writer behind a chain of dependent sources) raises; nothing that depends on it - no
        # call, no read of a source behind it, no write - may start, and the error must name a call that failed
        s = env.seed_for(seed, ID, tier, "registry", i)
        r = random.Random(env.seed_for(s, "descriptor"))
        out.append({"seed": s, "mode": "registry", "n": r.randint(3, 18), "W": r.choice([1, 2, 4, 8]), "sched": r.choice(["default", "random"]),
                    "max_errors": r.choice([0, 1, None, None]), "nfail": r.choice([1, 1, 2, 3]), "prebuilt": r.random() < 0.6,
                    "perturb": r.choice(["line", "none"])})
    return out


def run_registry(desc):
    import uberjob
    from vmon import history, rec, regmodel

    rng = random.Random(desc["seed"])
    rp = regmodel.gen_regplan(rng, desc["n"], cfg={"p_dsrc": 0.3, "p_chain": 0.6, "p_redundant": 0.4})
    S = regmodel.Session(rp, desc["seed"])
    H, ir = S.H, S.ir
    if desc["prebuilt"]:
        S.run(None, W=2)
        # make things out of date again: old values stay in the stores (a read that starts too early "works")
        ps = [i for i in S.reg if rp.role[i] == "psrc"]
        for i in rng.sample(ps, min(len(ps), rng.randint(1, 2))):
            S.src_version[i] += 1
            S.stores[i].set_content(irmod_val(i, S.src_version[i]))
    out_ids = history.choose_out(rng, S, rng.choice(["all", "sinks", "some"]))
    exp = S.expect(out_ids, None)
    cands = [c for c in exp.execs]
    if not cands:
        return {"status": "ok", "counters": {"registry_cases_nothing_to_run": 1}, "nontrivial": False}
    producers = [c for c in cands if rp.role[c] == "producer"]
    failing = set(rng.sample(producers, min(len(producers), 1)) if producers and rng.random() < 0.7 else [])
    red = [u for u, c in ir.meta.get("redundant_deps", ()) if u in exp.execs]
    if red and rng.random() < 0.8:
        failing.add(rng.choice(red))  # the source of an explicit dependency that duplicates an existing path fails
    while len(failing) < min(desc["nfail"], len(cands)):
        failing.add(rng.choice(cands))
    excs = {}

    def pre(nid, att):
        if nid in failing:
            e = rec.InjectedError(f"n{nid} fails")
            excs[nid] = e
            raise e

    H.pre = pre
    res, exc = S.run(out_ids, W=desc["W"], sched=desc["sched"], perturb=desc["perturb"], seed=desc["seed"], max_errors=desc["max_errors"])
    H.pre = None
    preds = S.preds
    calls = {n.id for n in ir.nodes if n.kind == "call"}

    def eff_anc(i):
        return S.eff_anc(exp, i)

    raised = {nid for nid in H.raised}
    bad = None
    # node of every store operation: store name -> registered node ids sharing that store
    by_store = {}
    for i, nm in S.store_name.items():
        by_store.setdefault(nm, []).append(i)
    for seq, kind, key, tid, extra in H.events:
        if kind == "start":
            hit = eff_anc(key) & calls & failing
            if hit:
                bad = f"call n{key} started (seq {seq}) although n{sorted(hit)[0]}, which it depends on, raises in this run"
                break
        elif kind in ("rd", "wr"):
            for i in by_store.get(key, ()):
                if not exp.ood.get(i):
                    continue  # an up-to-date stored value is read without waiting for anything upstream: that is not "depending on" the failed call
                anc = (eff_anc(i) | ({i} if i in calls else set())) & calls & failing
                # an out-of-date value is rebuilt behind the failed call: its write needs the call, its read (also of a dependent source) the rebuild
                if anc and all((not exp.ood.get(j)) or ((eff_anc(j) | ({j} if j in calls else set())) & calls & failing) for j in by_store[key]):
                    bad = (f"store {key} of n{i} was {'read' if kind == 'rd' else 'written'} (seq {seq}) although n{sorted(anc)[0]}, which n{i} depends on, "
                           f"raises in this run")
                    break
            if bad:
                break
    if bad is None and raised:
        if exc is None:
            bad = f"run returned a value although call(s) {sorted(raised)[:5]} raised"
        elif type(exc) is not uberjob.CallError:
            bad = f"run raised {type(exc).__name__} ({exc!r}) instead of CallError"
        else:
            nid = getattr(exc.call.fn, "_nid", None)
            if nid not in raised:
                bad = f"CallError.call is {getattr(exc.call.fn, '__qualname__', exc.call.fn)!r} (n{nid}), not one of the calls that raised ({sorted(raised)[:6]})"
            elif exc.__cause__ is not excs.get(nid):
                bad = f"CallError.__cause__ ({exc.__cause__!r}) is not the exception object raised by n{nid}"
    res_ = {"status": "ok", "counters": {"registry_faulted_runs": 1, "registry_failing_producers": len(failing & set(producers)), "failed_calls": len(raised),
                                          "errors_identity_checked": int(bool(raised))},
            "nontrivial": bool(raised), "sig": hashlib.sha1(("\n".join(S.describe(200)) + f"|reg|{sorted(failing)}|{desc['W']}").encode()).hexdigest()[:16]}
    if bad:
        res_.update(status="violation", detail=f"[registry run] {bad}", mechanism="failure-handling", witness={"plan": S.describe(200), "failing": sorted(failing), "history": H.compact_history(400)})
    return res_


def irmod_val(i, v):
    from vmon import ir as irmod

    return irmod.Val(("src", i), v)


def run_builtin_fail(desc):
    import operator

    import uberjob

    rng = random.Random(desc["seed"])
    plan = uberjob.Plan()
    ok = plan.call(operator.add, 1, 1)
    kinds = [("truediv", lambda: plan.call(operator.truediv, ok, 0), ZeroDivisionError), ("int", lambda: plan.call(int, "not a number"), ValueError),
             ("getitem", lambda: plan.call(operator.getitem, [1, 2], 7), IndexError), ("len", lambda: plan.call(len, ok), TypeError)]
    failing = {}
    nodes = [ok]
    for _ in range(desc["n"]):
        nm, mk, et = rng.choice(kinds)
        nd = mk()
        failing[nd] = (nm, et)
        nodes.append(nd)
    retry = desc["retry"]
    if retry == "noframe":
        retry = lambda f: f  # a custom retry decorator that adds no frame (it hands the function back)
    exc = None
    try:
        uberjob.run(plan, output=nodes, max_workers=desc["W"], scheduler=desc["sched"], retry=retry, max_errors=desc["max_errors"], progress=None)
    except BaseException as e:
        exc = e
    bad = None
    if not isinstance(exc, uberjob.CallError):
        bad = f"{len(failing)} failing call(s) of C-implemented functions: run ended with {exc!r} instead of CallError"
    elif exc.call not in failing:
        bad = f"CallError.call is {exc.call!r}, which is none of the failing calls"
    else:
        nm, et = failing[exc.call]
        if type(exc.__cause__) is not et:
            bad = f"CallError of the failing {nm} call has __cause__ {exc.__cause__!r}; the function raised a {et.__name__}"
    res = {"status": "ok", "counters": {"builtin_fail_runs": 1, "failing_runs": 1}, "nontrivial": True, "sig": f"builtin_fail|{desc['seed'] % 100000}"}
    if bad:
        res.update(status="violation", mechanism="error-identity", detail=f"[C-implemented failing callables, retry={desc['retry']}, W={desc['W']}] {bad}")
    return res


def run_odd_failures(desc):
    import threading

    import uberjob

    what = desc["what"]
    plan = uberjob.Plan()
    raised = []

    class Boom(ValueError):
        pass

    def ok(*a):
        return len(a)

    class BadRepr:
        """an object whose repr formats a field that is not there (yet): repr() raises"""

        def __repr__(self):
            raise RuntimeError("repr of an object whose fields are not loaded")

        def __hash__(self):
            return 7

        def __eq__(self, o):
            return self is o

        def __call__(self, *a):
            e = Boom("the call with the unprintable function failed")
            raised.append(e)
            raise e

    def boom(*a):
        e = Boom("failing head")
        raised.append(e)
        raise e

    stem = [plan.call(ok, i) for i in range(desc["extra"])]
    if what == "deep_dependents":
        failing = plan.call(boom, *stem)
        prev = failing
        for i in range(desc["depth"]):
            prev = plan.call(ok, prev, i)
        out = [prev] + stem
    elif what == "bad_repr_fn":
        failing = plan.call(BadRepr(), *stem)
        out = [plan.call(ok, failing)] + stem + [plan.call(ok, i, i) for i in range(desc["extra"])]
    else:
        with plan.scope("outer", BadRepr()):
            failing = plan.call(boom, *stem)
        out = [plan.call(ok, failing)] + stem + [plan.call(ok, i, i) for i in range(desc["extra"])]
    box = {}

    def go():
        try:
            box["res"] = uberjob.run(plan, output=out, max_workers=desc["W"], scheduler=desc["sched"], max_errors=desc["max_errors"], progress=None)
        except BaseException as e:  # noqa
            box["exc"] = e

    th = threading.Thread(target=go, daemon=True)
    th.start()
    th.join(120)
    label = {"deep_dependents": f"a failing call with {desc['depth']} levels of transitive dependents below it", "bad_repr_fn": "a failing call whose function object has a __repr__ that raises",
             "bad_repr_scope": "a failing call inside a scope one of whose values has a __repr__ that raises"}[what]
    res = {"status": "ok", "counters": {"odd_failure_runs": 1, "failing_runs": 1}, "sets": {"odd_failures": [what]}, "nontrivial": True,
           "sig": f"odd|{what}|{desc['W']}|{desc['sched']}|{desc['max_errors']}|{desc['depth'] if what == 'deep_dependents' else 0}|{desc['extra']}"}
    if th.is_alive():
        res.update(status="inconclusive", detail=f"[{label}, W={desc['W']}] run neither returned nor raised within 120 s of wall clock (termination is C07's business)")
        return res
    bad = None
    exc = box.get("exc")
    if exc is None:
        bad = f"run returned {box.get('res')!r:.80} although a call raised"
    elif type(exc) is not uberjob.CallError:
        bad = f"run raised {type(exc).__name__} ({exc!r:.120}) instead of CallError"
    elif exc.call is not failing:
        bad = "CallError.call is not the call that failed"
    elif not raised or exc.__cause__ is not raised[-1]:
        bad = f"CallError.__cause__ is {exc.__cause__!r:.120}, not the exception object the call raised ({raised[-1] if raised else None!r})"
    if bad:
        res.update(status="violation", mechanism="error-identity", detail=f"[{label}, W={desc['W']}, max_errors={desc['max_errors']}] {bad}")
    return res


def run_case(desc):
    import uberjob

    if desc.get("mode") == "odd_failures":
        return run_odd_failures(desc)
    if desc.get("mode") == "builtin_fail":
        return run_builtin_fail(desc)
    if desc.get("mode") == "registry":
        return run_registry(desc)
    progress = None
    if desc.get("display"):
        # a bundled display whose output callable RETURNS something (a file's or buffer's write returns a byte count, a logger's a handle):
        # whatever the display does with it, a failed call still makes run raise CallError
        import io

        import uberjob.progress as up

        sink = io.BytesIO()
        outs = {"bytesio_write": sink.write, "returns_true": lambda b: True, "returns_obj": lambda b: object()}
        mk = {"html": lambda f: up.html_progress(f), "html_in_list": lambda f: [up.html_progress(f)], "html_and_null": lambda f: (up.html_progress(f), up.null_progress)}
        progress = mk[desc["display"][0]](outs[desc["display"][1]])
    R = plainrun.execute(desc, record_args=False, progress=progress)
    ir, H = R.ir, R.H
    calls = set(ir.harness_calls())
    preds = ir.preds()
    allowed = desc.get("retry") or 1
    failed = {nid for nid in H.raised if nid not in H.ended_ok}
    bad = None
    # (1) nothing downstream of a failed call is ever started
    anc_cache = {}
    ended = set()
    checked = 0
    for seq, kind, nid, tid, extra in H.events:
        if kind == "end":
            ended.add(nid)
        elif kind == "start":
            if nid not in anc_cache:
                anc_cache[nid] = (ir.ancestors([nid], preds) - {nid}) & calls
            checked += 1
            missing = anc_cache[nid] - ended
            if missing:
                fa = sorted(missing & set(H.raised))
                bad = f"call n{nid} started (seq {seq}) although ancestor(s) {sorted(missing)[:5]} had not succeeded (raised: {fa[:5]})"
                break
    # (2) the error
    first_fail = None
    for seq, kind, nid, tid, extra in H.events:
        if kind == "raise" and nid in failed:
            # the last attempt's raise of the first finally-failing call
            pass
    order = []
    last_raise_seq = {}
    for seq, kind, nid, tid, extra in H.events:
        if kind == "raise":
            last_raise_seq[nid] = seq
    if failed:
        first_fail = min(failed, key=lambda c: last_raise_seq[c])
    if bad is None:
        if failed:
            if R.exc is None:
                bad = f"run returned a value although call(s) {sorted(failed)[:5]} raised"
            elif type(R.exc) is not uberjob.CallError:
                bad = f"run raised {type(R.exc).__name__} ({R.exc!r}) instead of CallError"
            else:
                nid = getattr(R.exc.call.fn, "_nid", None)
                if nid not in failed:
                    bad = f"CallError.call is n{nid}, which did not fail in this run (failed: {sorted(failed)[:6]})"
                elif R.exc.__cause__ is not H.raised[nid][-1]:
                    bad = f"CallError.__cause__ ({R.exc.__cause__!r}) is not the exception object raised by n{nid} ({H.raised[nid][-1]!r})"
                elif desc["W"] == 1 and nid != first_fail:
                    bad = f"single worker: CallError.call is n{nid} but the first call that failed was n{first_fail}"
        elif R.exc is not None:
            bad = f"run raised {R.exc!r} although no call failed (cause {R.exc.__cause__!r})"
    succ = ir.succs()
    continued = len(H.events) > 0 and failed and any(s > min(last_raise_seq[c] for c in failed) and k == "start" for s, k, *_ in H.events)
    counters = {"faulted_runs": 1, "starts_checked": checked, "failed_calls": len(failed), "errors_identity_checked": int(bool(failed)),
                "runs_continued_past_failure": int(bool(continued)), "w1_first_failure_checked": int(desc["W"] == 1 and bool(failed)), "w1_runs_with_more_than_16_failures": int(desc["W"] == 1 and len(failed) > 16),
                "baseexception_failures": sum(1 for c in failed if isinstance(H.raised[c][-1], BaseException) and not isinstance(H.raised[c][-1], Exception))}
    sets = {}
    plainrun.perturb_stats(R, counters, sets)
    res = {"status": "ok", "counters": counters, "sets": sets,
           "nontrivial": bool(continued) and any(succ[c] for c in failed),
           "sig": hashlib.sha1(("\n".join(ir.describe(200)) + f"|{desc['W']}|{desc['sched']}|{desc['max_errors']}|{sorted(R.fail)}").encode()).hexdigest()[:16]}
    if desc["seed"] % 400 == 0 or bad:
        res["sample"] = {"desc": desc, "plan": ir.describe(12), "failing": {str(c): list(v) for c, v in list(R.fail.items())[:8]},
                         "error": repr(R.exc)[:200], "cause": repr(getattr(R.exc, "__cause__", None))}
    if bad:
        res.update(status="violation", detail=bad, mechanism="failure-handling",
                   witness={"plan": ir.describe(200), "history": H.compact_history(1500), "failing": {str(c): list(v) for c, v in R.fail.items()}})
    return res


def finalize(agg, tier):
    c = agg.counters
    reasons = []
    if c["runs_continued_past_failure"] < 50:
        reasons.append("fewer than 50 runs continued past their first failure")
    if c["baseexception_failures"] < 50:
        reasons.append("fewer than 50 BaseException failures in worker threads")
    if c["w1_first_failure_checked"] < 20:
        reasons.append("fewer than 20 single-worker first-failure checks")
    return reasons
