"""C20 - bundled progress displays render every reachable state, ending with the final."""
import collections
import hashlib
import html
import io
import os
import random
import re
import shutil
import sys
import tempfile
import threading
import time as real_time

from vmon import env

ID = "C20"
LEVEL = "exploration"
RULE = (
    "cases = generated legal notification sequences (totals >= 1 announced before running, running closed by completed/"
    "failed or legitimately left open, several sections/scopes, 0-200 exceptions, issued from 1-4 threads) over arbitrary "
    "hashable scope tuples (mixed types, unorderable same-type values such as complex / plain objects / frozensets / nested "
    "tuples, None, long strings, HTML-special characters) driven into the bundled console, HTML (callable and path output) "
    "and IPython observers with a VIRTUAL clock substituted for the module's `time`; mode 'direct' renders after every "
    "notification, mode 'threaded' runs the real update thread with sub-millisecond intervals while notifications arrive. "
    "oracle: no exception from rendering (direct call or threading.excepthook), the last rendering emitted shows for every "
    "section/scope the generator's final counts (console: last line printed for that scope; HTML: last document; IPython: "
    "widget labels), and the elapsed time attributed to scopes sums to the virtual time during which >= 1 call was running. "
    "non-trivial = sequence with >= 2 scopes in one section whose values are of one type that cannot be ordered, or of mixed "
    "types; distinct by (observer, mode, scope set, sequence digest)"
)
ASSUMPTIONS = ["sequences are legal in the sense of C15", "ipywidgets is importable; outside a notebook display() is a no-op print",
               "scope values have pairwise distinct text forms (so that a rendered line identifies its scope)"]


class Obj:
    def __init__(self, n):
        self.n = n

    def __repr__(self):
        return f"Obj#{self.n}"


def scope_values(r):
    pool = ["a", "b", "x.y", "<b>&amp;\"'", "long" * 30, 0, 1, 2, -1, 1.5, None, True, 1j, 2j, 3 + 1j, ("t", 1), ("t", "a"), ("u",),
            frozenset({1}), frozenset({2}), frozenset({1, 2}), Obj(1), Obj(2), b"bytes", range(3), "émoji✓"]
    return pool


def gen_cases(tier, seed):
    n = 1500 if tier == "quick" else 25000
    out = []
    for i in range(n):
        s = env.seed_for(seed, ID, tier, i)
        r = random.Random(env.seed_for(s, "descriptor"))  # independent of the stream run_case derives from the same seed
        out.append({"seed": s, "observer": r.choice(["console", "html", "html_path", "ipython"]), "mode": r.choice(["direct", "threaded"]), "exit_with": r.choice(["none", "none", "error", "kbi", "sysexit"]), "dry_tail": r.random() < 0.15,
                    "nscopes": r.choice([1, 2, 3, 5, 8]), "nthreads": r.choice([1, 1, 2, 4]), "style": r.choice(["same_unorderable", "mixed", "strings", "any"]),
                    "exceptions": r.choice([0, 0, 1, 3, 150, 200]) if r.random() < 0.5 else 0,
                    # one scope with more than 100 calls (a fresh IntProgress has max == 100); an output sink that is still busy when the run ends
                    "big": r.random() < 0.06, "slow_sink": r.random() < 0.5})
    return out


def make_scopes(r, desc):
    pool = scope_values(r)
    style = desc["style"]
    scopes = []
    seen_text = set()
    tries = 0
    while len(scopes) < desc["nscopes"] and tries < 200:
        tries += 1
        if style == "strings":
            vals = [v for v in pool if isinstance(v, str)]
        elif style == "same_unorderable":
            grp = r.choice([[1j, 2j, 3 + 1j], [Obj(1), Obj(2)], [frozenset({1}), frozenset({2}), frozenset({1, 2})], [("t", 1), ("t", "a"), ("u",)], [None, None]])
            vals = grp
        else:
            vals = pool
        sc = tuple(r.choice(vals) for _ in range(r.choice([1, 1, 2, 3]) if style != "same_unorderable" else 1))
        if style == "any" and r.random() < 0.1:
            sc = ()
        text = ", ".join(str(v) for v in sc)
        if text in seen_text:
            continue
        seen_text.add(text)
        scopes.append(sc)
    return scopes


class VClock:
    def __init__(self):
        self.now = 1_000_000.0
        self.lock = threading.Lock()

    def time(self):
        return self.now

    def advance(self, d):
        with self.lock:
            self.now += d

    # the module also uses nothing else from `time`


def gen_sequence(r, scopes, desc):
    """List of (thread index, op, section, scope, arg, dt_before). Also returns expected final counts and busy time."""
    sections = ["run"] if r.random() < 0.5 else ["stale", "run"]
    seq = []
    final = {}
    busy = 0.0
    running_total = 0
    n_exc = desc["exceptions"]
    fail_tail = n_exc >= 150 and r.random() < 0.7  # every call fails: the run ends with failures beyond the 128-exception cap
    micro = r.random() < 0.15  # every call lasts well under a millisecond (binary fractions, so that the expected sums are exact)
    for section in sections:
        use = scopes if section == "run" else scopes[: max(1, len(scopes) // 2)]
        totals = {sc: r.randint(1, 6) if n_exc < 100 else r.randint(20, 60) for sc in use}
        if desc.get("big"):
            totals[use[0]] = r.randint(101, 180)
        for sc, t in totals.items():
            if r.random() < 0.3 and t > 1:
                seq.append((0, "total", section, sc, t - 1, 0.0))
                seq.append((0, "total", section, sc, 1, 0.0))
            else:
                seq.append((0, "total", section, sc, t, 0.0))
            final[(section, sc)] = {"completed": 0, "failed": 0, "running": 0, "total": t}
        # per-thread work lists
        work = [(sc, i) for sc, t in totals.items() for i in range(t)]
        r.shuffle(work)
        cut = len(work) if r.random() < 0.7 else r.randint(0, len(work))  # a failed/stopped run leaves totals unreached
        work = work[:cut]
        T = desc["nthreads"]
        open_by_thread = {}
        events = []
        # simulate: threads pick work, emit running then (later) completed/failed; interleave randomly
        pending = list(work)
        while pending or open_by_thread:
            th = r.randrange(T)
            dtm = r.choice([0.0, 2.0 ** -11, 2.0 ** -13, 2.0 ** -11]) if micro else r.choice([0.0, 0.0, 0.25, 1.0, 3.5, 60.0, 2.0 ** -11, 59.5, 600.0, 3599.0, 7300.0] if r.random() < 0.3 else [0.0, 0.0, 0.25, 1.0, 3.5, 60.0, 2.0 ** -11])
            if th in open_by_thread:
                sc = open_by_thread.pop(th)
                left_open = r.random() < 0.03
                if left_open:
                    continue  # BaseException in the call: running never closed (legal per C15's proviso); thread moves on
                kind = "failed" if (n_exc > 0 or r.random() < 0.1) and (r.random() < 0.5 or fail_tail) else "completed"
                if kind == "failed":
                    n_exc = max(0, n_exc - 1)
                events.append((th, kind, section, sc, None, dtm))
            elif pending:
                sc, _ = pending.pop()
                open_by_thread[th] = sc
                events.append((th, "running", section, sc, None, dtm))
            else:
                continue
        # extra failures to exceed the 128-exception cap when requested
        seq.extend(events)
    if desc.get("dry_tail"):
        # the account ends with TOTALS (what a dry run announces for the run section after the stale check, or a transform_physical that
        # adds calls late): some time after the last call notification, more is announced and nothing else follows
        for sc in r.sample(scopes, min(len(scopes), r.randint(1, 2))):
            amt = r.randint(1, 5)
            seq.append((0, "total", "run", sc, amt, r.choice([0.0, 0.5, 2.0])))
            final.setdefault(("run", sc), {"completed": 0, "failed": 0, "running": 0, "total": 0})["total"] += amt
    # compute expectations by replay
    running = collections.Counter()
    for th, op, section, sc, arg, dtm in seq:
        if sum(running.values()) > 0:
            busy += dtm
        key = (section, sc)
        if op == "running":
            running[key] += 1
            final[key]["running"] += 1
        elif op in ("completed", "failed"):
            running[key] -= 1
            final[key]["running"] -= 1
            final[key][op] += 1
    tail = r.choice([0.0, 2.0])
    tail_contrib = tail if sum(running.values()) > 0 else 0.0
    busy += tail_contrib
    return seq, final, busy, tail, tail_contrib


NUM = re.compile(r"^\s*(?:\((\d+) \+ (\d+)\)|(\d+)) / (\d+)(?:, (?:<span[^>]*>)?(\d+) failed(?:</span>)?)?\s*$")


def parse_progress(s):
    m = NUM.match(s)
    if not m:
        return None
    if m.group(1) is not None:
        c, rn = int(m.group(1)), int(m.group(2))
    else:
        c, rn = int(m.group(3)), None
    return {"completed": c, "running": rn, "total": int(m.group(4)), "failed": int(m.group(5) or 0)}


def matches(parsed, fin):
    if parsed is None:
        return False
    if parsed["completed"] != fin["completed"] or parsed["total"] != fin["total"] or parsed["failed"] != fin["failed"]:
        return False
    if parsed["running"] is not None and parsed["running"] != fin["running"]:
        return False
    return True


def ref_elapsed(e):
    """The documented look of an attributed time: whole seconds as 5s / 2m05s / 1h02m05s."""
    e = int(e)
    h, m, s = e // 3600, (e % 3600) // 60, e % 60
    if h:
        return f"{h}h{m:02}m{s:02}s"
    if m:
        return f"{m}m{s:02}s"
    return f"{s}s"


def run_case(desc):
    import uberjob.progress as up
    import uberjob.progress._simple_progress_observer as spo

    r = random.Random(desc["seed"])
    scopes = make_scopes(r, desc)
    seq, final, busy, tail, tail_contrib = gen_sequence(r, scopes, desc)
    clock = VClock()
    old_time = spo.time
    spo.time = clock
    tmp = None
    outputs = []
    counters_extra = {}
    thread_errors = []
    old_hook = threading.excepthook
    threading.excepthook = lambda args: thread_errors.append((args.exc_type.__name__, str(args.exc_value)[:200], args.thread.name if args.thread else None))
    old_stdout = sys.stdout
    cap = io.StringIO()
    bad = None
    kind = desc["observer"]
    threaded = desc["mode"] == "threaded"
    # max_update_interval is compared against the (virtual) clock: huge, so that only staleness triggers a rendering
    iv = dict(initial_update_delay=0.0003, min_update_interval=0.0003, max_update_interval=1e12) if threaded else \
        dict(initial_update_delay=1000, min_update_interval=1000, max_update_interval=1000)
    try:
        if kind == "console":
            obs = up.ConsoleProgressObserver(**iv)
        elif kind == "html":
            if threaded and desc.get("slow_sink"):
                # a sink that is slow once (a slow file system, a remote notebook): its second document is still being written when the run
                # ends - whatever was notified meanwhile must still be shown by a last rendering
                def sink(b, _n=[0]):
                    _n[0] += 1
                    if _n[0] == 2:
                        t_end = real_time.monotonic() + 2.0
                        while not obs._done_event.is_set() and real_time.monotonic() < t_end:
                            real_time.sleep(0.0005)
                        counters_extra["slow_sink_busy_at_exit"] = int(obs._done_event.is_set())
                    outputs.append(b)

                obs = up.HtmlProgressObserver(sink, **iv)
            else:
                obs = up.HtmlProgressObserver(lambda b: outputs.append(b), **iv)
        elif kind == "html_path":
            tmp = tempfile.mkdtemp(prefix="vmon-c20-")
            obs = up.HtmlProgressObserver(os.path.join(tmp, "p.html"), **iv)
        else:
            obs = up.IPythonProgressObserver(**iv)
        sys.stdout = cap
        renders = 0

        def emit(op, section, sc, arg, k):
            if op == "total":
                obs.increment_total(section=section, scope=sc, amount=arg)
            elif op == "running":
                obs.increment_running(section=section, scope=sc)
            elif op == "completed":
                obs.increment_completed(section=section, scope=sc)
            else:
                # what run hands to observers: a CallError chained to whatever the call raised - with a message, without one (bare assert,
                # KeyError()), multi-line, non-ASCII, with non-string arguments
                import uberjob
                from uberjob.graph import Call

                causes = [lambda: ValueError(f"boom <{k}> & more"), lambda: KeyError(), lambda: ValueError(), lambda: AssertionError(), lambda: RuntimeError(""),
                          lambda: OSError(28, "No space left"), lambda: ValueError("line1\nline2 <b>\n"), lambda: KeyError(("t", 1)), lambda: Exception(None, 3.5),
                          lambda: ValueError("\u00e9moji \u2713 " * 30), lambda: StopIteration(), lambda: ValueError("\n")]
                try:
                    try:
                        raise causes[(k * 7 + len(scopes)) % len(causes)]()
                    except Exception as cause:
                        raise uberjob.CallError(Call(len, scope=sc)) from cause
                except uberjob.CallError as e:
                    obs.increment_failed(section=section, scope=sc, exception=e)

        render_error = None
        quiet_bad = None
        quiet_renders = 0
        quiet_extra = 0.0
        if not threaded:
            # direct: render after every notification under the observer's own lock, plus once at the end
            busy_so_far = 0.0
            running_now = 0
            skip_first = [0, 0, 0, 10 ** 9, len(seq) // 2][desc["seed"] % 5]
            if desc.get("big") and desc["seed"] % 2:
                skip_first = 10 ** 9  # many quick calls: everything is over before the display's first rendering
            if desc["seed"] % 3 == 0:
                # the display's first refresh can come before anything has been announced (slow planning): it renders an empty state
                try:
                    obs._stale = True
                    with obs._lock:
                        v = obs._do_render()
                    if v is not None:
                        obs._output(v)
                except BaseException as e:
                    render_error = f"rendering the EMPTY state (before any notification) raised {type(e).__name__}: {e}"
            for k, (th, op, section, sc, arg, dtm) in enumerate(seq):
                if running_now > 0:
                    busy_so_far += dtm
                clock.advance(dtm)
                emit(op, section, sc, arg, k)
                running_now += 1 if op == "running" else (-1 if op in ("completed", "failed") else 0)
                if k < skip_first:
                    continue  # (a quick run: the display's first rendering comes late, possibly only at the end)
                try:
                    with obs._lock:
                        v = obs._do_render()
                    if v is not None:
                        obs._output(v)
                    renders += 1
                    if k % 9 == 4 and running_now > 0 and render_error is None and quiet_bad is None:
                        # a rendering in a QUIET period (time passes, calls are running, no notification arrives; the display refreshes because
                        # its longest update interval is over): the time attributed so far still adds up to the time calls have been running
                        q_ = [0.5, 61.0, 3.0][k % 3]
                        clock.advance(q_)
                        busy_so_far += q_
                        quiet_extra += q_
                        old_max = obs._max_update_interval
                        obs._max_update_interval = 0
                        try:
                            with obs._lock:
                                v = obs._do_render()
                        finally:
                            obs._max_update_interval = old_max
                        if v is not None:
                            obs._output(v)
                        quiet_renders += 1
                        tot_ = sum(ss.weighted_elapsed for m in obs._state.section_scope_mapping.values() for ss in m.values())
                        if abs(tot_ - busy_so_far) > 1e-6 * max(1.0, busy_so_far):
                            quiet_bad = (f"rendering in a quiet period after notification {k}: the time attributed to scopes sums to {tot_:.6f}s but calls have been "
                                         f"running for {busy_so_far:.6f}s (virtual clock)")
                except BaseException as e:
                    import traceback

                    render_error = f"rendering raised {type(e).__name__}: {e} after notification {k} ({op} {section} {sc!r}) :: {traceback.format_exc()[-300:]}"
                    break
            if render_error is None:
                clock.advance(tail)
                try:
                    obs._stale = True
                    with obs._lock:
                        v = obs._do_render()
                    if v is not None:
                        obs._output(v)
                except BaseException as e:
                    render_error = f"final rendering raised {type(e).__name__}: {e}"
                if render_error is None and desc["seed"] % 2 == 0:
                    # ... and one more refresh after everything has been shown as finished (nothing new to print)
                    try:
                        obs._stale = True
                        with obs._lock:
                            v = obs._do_render()
                        if v is not None:
                            obs._output(v)
                    except BaseException as e:
                        render_error = f"a refresh after the final rendering raised {type(e).__name__}: {e}"
        else:
            T = desc["nthreads"]

            class _Ctx:
                """enters the observer; leaves it the way run does - with no exception, with the CallError of a failed run, or with the
                KeyboardInterrupt / SystemExit of an interrupted one: the last rendering shows the final counts in every case"""

                def __enter__(self_):
                    obs.__enter__()

                def __exit__(self_, *a):
                    ew = desc.get("exit_with", "none")
                    if ew == "none":
                        obs.__exit__(None, None, None)
                    else:
                        e_ = {"error": RuntimeError("a call failed"), "kbi": KeyboardInterrupt(), "sysexit": SystemExit(3)}[ew]
                        obs.__exit__(type(e_), e_, None)
                    return False

            with _Ctx():
                if T == 1:
                    for k, (th, op, section, sc, arg, dtm) in enumerate(seq):
                        clock.advance(dtm)
                        emit(op, section, sc, arg, k)
                        if k % 7 == 0:
                            real_time.sleep(0.0004)
                else:
                    # notifications keep their global order (a token passes between threads) but come from several threads
                    turn = threading.Condition()
                    pos = [0]

                    def worker(me):
                        while True:
                            with turn:
                                while pos[0] < len(seq) and seq[pos[0]][0] % T != me:
                                    turn.wait(0.05)
                                if pos[0] >= len(seq):
                                    turn.notify_all()
                                    return
                                k = pos[0]
                                th, op, section, sc, arg, dtm = seq[k]
                                clock.advance(dtm)
                                emit(op, section, sc, arg, k)
                                pos[0] += 1
                                turn.notify_all()
                            if k % 5 == 0:
                                real_time.sleep(0.0003)

                    ts = [threading.Thread(target=worker, args=(i,)) for i in range(T)]
                    for t in ts:
                        t.start()
                    for t in ts:
                        t.join()
                clock.advance(tail)
                real_time.sleep(0.002)
        sys.stdout = old_stdout
        if render_error:
            bad = render_error
        elif thread_errors:
            bad = f"the display's update thread died: {thread_errors[0]}"
        if bad is None and quiet_bad:
            bad = quiet_bad
        # ---- final rendering reflects final counts
        shown_elapsed = {}
        if bad is None:
            if kind == "console":
                text = cap.getvalue()
                last = {}
                section = None
                for line in text.split("\n"):
                    if line in ("stale:", "run:"):
                        section = line[:-1]
                    elif line.startswith("  ") and " | " in line and section:
                        parts = line.split(" | ", 2)
                        if len(parts) == 3:
                            last[(section, parts[2])] = parts[0]
                            shown_elapsed[(section, parts[2])] = parts[1].strip()
                    elif line.startswith("uberjob, elapsed"):
                        section = None
                for (section, sc), fin in final.items():
                    s = ", ".join(str(v) for v in sc)
                    got = last.get((section, s))
                    if got is None or not matches(parse_progress(got), fin):
                        bad = f"console: last line printed for {section}/{sc!r} is {got!r}, final counts are {fin}"
                        break
            elif kind in ("html", "html_path"):
                if kind == "html_path":
                    p = os.path.join(tmp, "p.html")
                    doc = open(p, encoding="utf-8").read() if os.path.exists(p) else None
                else:
                    doc = outputs[-1].decode() if outputs else None
                if doc is None:
                    bad = "HTML observer emitted no document"
                else:
                    rows = re.findall(r"<tr class=\"[^\"]*\">(.*?)</tr>", doc, re.S)
                    cells = [re.findall(r"<td[^>]*>(.*?)</td>", row, re.S) for row in rows]
                    cells = [c for c in cells if len(c) == 4]
                    by_section = doc.split('<h3 class="mt-4">')
                    for (section, sc), fin in final.items():
                        title = "Determining stale value stores" if section == "stale" else "Running graph"
                        part = next((p_ for p_ in by_section if p_.startswith(title)), None)
                        if part is None:
                            bad = f"HTML: section {section} missing from the last document"
                            break
                        rws = [re.findall(r"<td[^>]*>(.*?)</td>", row, re.S) for row in re.findall(r"<tr class=\"[^\"]*\">(.*?)</tr>", part, re.S)]
                        want_scope = html.escape(", ".join(str(v) for v in sc).replace(".", "​."))
                        hit = [c for c in rws if len(c) == 4 and c[3].strip() == want_scope]
                        if not hit or not any(matches(parse_progress(c[1].strip()), fin) for c in hit):
                            bad = f"HTML: last document shows {[c[1].strip() for c in hit]} for {section}/{sc!r}, final counts are {fin}"
                            break
                        shown_elapsed[(section, ", ".join(str(v) for v in sc))] = html.unescape(hit[-1][2].strip())
            else:
                cache = obs._widget_cache or {}
                # what the user sees is the widget tree handed to display(): display must have been called, and every label must hang in that tree
                root = cache.get(())
                shown = set()
                stack = [root] if root is not None else []
                while stack:
                    w_ = stack.pop()
                    if id(w_) in shown:
                        continue
                    shown.add(id(w_))
                    stack.extend(getattr(w_, "children", ()) or ())
                if final and "VBox(" not in cap.getvalue():
                    bad = "IPython: display() was never called - the widgets are updated but nothing is shown"
                for (section, sc), fin in final.items():
                    if bad:
                        break
                    w = cache.get(("section", section, "scope", sc, "label"))
                    got = None if w is None else w.value.split("; ")[0]
                    if got is None or not matches(parse_progress(got), fin):
                        bad = f"IPython: label for {section}/{sc!r} shows {got!r}, final counts are {fin}"
                        break
                    if id(w) not in shown:
                        bad = f"IPython: the label for {section}/{sc!r} is not part of the displayed widget tree"
                        break
                    pw = cache.get(("section", section, "scope", sc, "progress"))
                    if pw is not None and (pw.max != fin["total"] or pw.value != fin["completed"] + fin["failed"]):
                        bad = (f"IPython: the progress bar for {section}/{sc!r} shows value={pw.value} of max={pw.max}, final counts are {fin} "
                               f"(the label next to it reads {got!r})")
                        break
                    shown_elapsed[(section, ", ".join(str(v) for v in sc))] = w.value.split("; ")[1] if w.value.count("; ") >= 2 else None
        # ---- the time shown per scope is the attributed time, in the documented h/m/s form (direct mode: the last rendering is the last event)
        if bad is None and not threaded:
            for section, m_ in obs._state.section_scope_mapping.items():
                for sc, ss in m_.items():
                    key_ = (section, ", ".join(str(v) for v in sc))
                    if key_ in shown_elapsed and shown_elapsed[key_] is not None and shown_elapsed[key_] != ref_elapsed(ss.weighted_elapsed):
                        bad = (f"{kind}: the last rendering shows {shown_elapsed[key_]!r} as the time attributed to {section}/{sc!r}; "
                               f"attributed are {ss.weighted_elapsed:.3f}s = {ref_elapsed(ss.weighted_elapsed)!r}")
                        break
                if bad:
                    break
            elapsed_strings_checked = len(shown_elapsed)
        # ---- elapsed attribution
        if bad is None:
            tot = sum(ss.weighted_elapsed for m in obs._state.section_scope_mapping.values() for ss in m.values())
            # threaded mode: the last update of the attribution happened either before or after the final (atomic) advance
            # of the virtual clock, depending on whether a rendering was still due; direct mode renders after it.
            busy = busy + quiet_extra
            ok = abs(tot - busy) <= 1e-6 * max(1.0, busy) or (threaded and abs(tot - (busy - tail_contrib)) <= 1e-6 * max(1.0, busy))
            if not ok:
                bad = f"elapsed time attributed to scopes sums to {tot:.6f}s but >= 1 call was running for {busy:.6f}s (virtual clock)"
    finally:
        sys.stdout = old_stdout
        spo.time = old_time
        threading.excepthook = old_hook
        if tmp:
            shutil.rmtree(tmp, ignore_errors=True)
    types_in_section = collections.defaultdict(set)
    unorderable = False
    for sc in scopes:
        for v in sc:
            types_in_section[type(v)].add(repr(v))
    if desc["style"] in ("same_unorderable", "mixed", "any") and len(scopes) >= 2:
        unorderable = True
    mech = "render"
    if bad and "TypeError" in bad and ("not supported between" in bad):
        mech = "unorderable-scope-sort"
    res = {"status": "ok", "counters": {"sequences": 1, "quiet_period_renderings": quiet_renders, "notifications": len(seq), f"observer_{kind}": 1, f"mode_{desc['mode']}": 1,
                                         "sequences_with_open_running": int(any(f["running"] > 0 for f in final.values())),
                                         "exceptions_over_cap": int(sum(f["failed"] for f in final.values()) > 128)},
           "sets": {"scope_value_types": sorted({type(v).__name__ for sc in scopes for v in sc})},
           "nontrivial": unorderable,
           "sig": hashlib.sha1(f"{kind}|{desc['mode']}|{[repr(s) for s in scopes]}|{len(seq)}|{desc['seed'] % 1000}".encode()).hexdigest()[:16]}
    res["counters"]["slow_sink_busy_at_exit"] = counters_extra.get("slow_sink_busy_at_exit", 0)
    res["counters"]["sequences_with_a_scope_over_100_calls"] = int(bool(desc.get("big")))
    if desc["seed"] % 300 == 0 or bad:
        res["sample"] = {"desc": desc, "scopes": [repr(s) for s in scopes], "sequence_head": [f"t{th}:{op}:{sec}:{sc!r}:{arg}:+{dtm}" for th, op, sec, sc, arg, dtm in seq[:12]],
                         "final": {f"{k[0]}/{k[1]!r}": v for k, v in list(final.items())[:6]}, "busy_virtual_s": busy}
    if bad:
        res.update(status="violation", detail=f"[{kind} {desc['mode']}] {bad}", mechanism=mech,
                   witness={"scopes": [repr(s) for s in scopes], "sequence": [f"t{th}:{op}:{sec}:{sc!r}:{arg}:+{dtm}" for th, op, sec, sc, arg, dtm in seq[:200]]})
    return res


def finalize(agg, tier):
    c = agg.counters
    reasons = []
    for k in ("observer_console", "observer_html", "observer_html_path", "observer_ipython", "mode_direct", "mode_threaded"):
        if c[k] < 20:
            reasons.append(f"{k} ran fewer than 20 sequences")
    if not {"complex", "Obj", "frozenset", "tuple", "NoneType"} <= agg.sets.get("scope_value_types", set()):
        reasons.append("unorderable scope value types were not all exercised")
    return reasons
