"""C08 - a run cut short at any point leaves stores that the next run repairs correctly."""
import hashlib
import random

from vmon import env, history, ir as irmod, vstore

ID = "C08"
LEVEL = "fault_enumeration"
RULE = (
    "per generated case (plan, registry, store state reached by a seeded history, output, fresh_time) a counted run gives "
    "the number K of boundary events (call start, store read, store write before effect, store write after effect, "
    "modified-time query); then for EVERY k <= K, each fault kind (Exception, BaseException) and each configuration "
    "(W in {1,4}, default/random scheduler, max_errors 0/None, LINE perturbation for W>1) the run is repeated from the "
    "restored state with the fault at event k; oracles: (1) every stored value the out-of-date oracle treats as up to "
    "date in the post-cut state equals its from-scratch value, (2) the next un-faulted run satisfies the C03 value "
    "oracle and the C05 exact-multiset oracle computed from the post-cut state (so nothing completely written before "
    "the cut is recomputed). non-trivial = a cut after at least one store write took effect and before the last; "
    "distinct by (structure, state, k, kind, configuration). The file-backed crash variant (fork + os._exit at every "
    "file operation) runs in mode 'file'."
)
ASSUMPTIONS = [
    "in-memory stores are atomic per operation; process death between two store operations is represented by a "
    "BaseException cut with one worker and max_errors=0 (nothing further runs), and by real os._exit in the file-backed mode",
    "exhaustive: every k of each generated case; cases themselves are sampled",
]
WATCHDOG = {"quick": 240.0, "thorough": 900.0}


def gen_cases(tier, seed):
    n = 96 if tier == "quick" else 1200
    out = []
    for i in range(n):
        s = env.seed_for(seed, ID, tier, i)
        r = random.Random(env.seed_for(s, "descriptor"))  # independent of the stream run_case derives from the same seed
        mode = "file" if r.random() < 0.15 else "mem"
        out.append({"seed": s, "mode": mode, "n": r.randint(2, 12 if tier == "quick" else 22) if mode == "mem" else r.randint(2, 7),
                    "steps": r.randint(0, 5), "tier": tier,
                    # one case in four runs in a zone with daylight saving, the logical clock mapped onto instants around a transition
                    "tz": r.choice(["America/New_York", "Europe/London", "Australia/Lord_Howe", "Europe/Berlin"]) if r.random() < 0.25 else None})
    for i in range(n // 6):
        out.append({"seed": env.seed_for(seed, ID, tier, "siblings", i), "mode": "file", "siblings": True, "tier": tier})
    return out


def run_case(desc):
    if desc["mode"] == "file":
        from vmon.checks import c08_file

        return c08_file.run_case(desc)
    if not desc.get("tz"):
        return _run_mem(desc)
    import os
    import time

    old = os.environ.get("TZ")
    os.environ["TZ"] = desc["tz"]
    time.tzset()
    try:
        r_ = _run_mem(desc)
        r_.setdefault("counters", {})["cases_in_dst_zone"] = 1
        return r_
    finally:
        if old is None:
            os.environ.pop("TZ", None)
        else:
            os.environ["TZ"] = old
        time.tzset()


def _run_mem(desc):
    problems, stats, S, log = history._run_history(desc, props=())
    prefix_cut = 0
    if problems:
        # the history that was to produce the starting state already went wrong (another property's business): start from empty stores instead
        problems, stats, S, log = history._run_history(dict(desc, steps=0), props=())
        prefix_cut = 1
    rng = random.Random(desc["seed"] ^ 0xC08)
    H = S.H
    for _ in range(rng.randint(1, 3)):
        ps = [i for i in S.reg if S.rp.role[i] == "psrc"]
        dl = [i for i in S.reg if S.rp.role[i] in ("stored", "dsrc", "slit")]
        if ps and rng.random() < 0.6:
            i = rng.choice(ps)
            S.src_version[i] += 1
            S.stores[i].set_content(irmod.Val(("src", i), S.src_version[i]))
        elif dl:
            S.delete(rng.choice(dl))
    out_ids = history.choose_out(rng, S)
    fresh = history.choose_fresh(rng, S)
    aligned = 0
    if desc.get("tz") and rng.random() < 0.7:
        # the cut happens in the hour that the zone's clocks repeat: the logical ticks around "now" are mapped onto instants exactly one
        # repeated period (or half of it) apart, so that a value written just before the cut run and one rewritten by it carry the SAME wall-clock
        # time, in different passes. Most stores report naive local time with fold, as the bundled file stores do.
        import datetime as _dt
        import zoneinfo

        from vmon.checks import c18

        falls = [T for T, kind in c18.transitions(desc["tz"], rng) if kind == "fall"]
        if falls:
            T0 = rng.choice(falls)
            z = zoneinfo.ZoneInfo(desc["tz"])
            shift = int((z.utcoffset(_dt.datetime.fromtimestamp(T0 - 1, z)) - z.utcoffset(_dt.datetime.fromtimestamp(T0 + 1, z))).total_seconds())
            if shift > 0:
                a = S.clock.t + rng.choice([-2, -1, 0, 0, 1, 2])
                step = rng.choice([shift, shift, shift // 2])
                base = T0 - shift + rng.choice([0, 7, shift // 3, shift // 2 - 1])
                for st in S.stores.values():
                    rep = ("naive_local",) if rng.random() < 0.75 else c18.rand_rep(rng)
                    st.dt_of = (lambda tick, rep=rep: c18.represent(base + (tick - a) * step, rep))
                S.fresh_dt = lambda tick: c18.represent(base + (tick - a) * step, c18.rand_rep(rng, 0.4))
                aligned = 1
    snap = S.snapshot()
    state0 = S.state_desc()
    # counted run
    f = history.Fault(H, k=None)
    f.install()
    try:
        res, exc = S.run(out_ids, W=1, fresh_tick=fresh)
    finally:
        f.uninstall()
    if exc is not None:
        return {"status": "inconclusive", "detail": f"counted run raised {exc!r} cause {exc.__cause__!r}"}
    K = f.count
    n_writes_total = sum(1 for b, _ in f.log if b == "wr_after")
    counters = {"cases": 1, "cases_cut_in_repeated_hour": aligned, "cut_positions_K": K, "cut_runs": 0, "cut_positions_hit": 0, "repair_runs": 0, "cuts_not_reached": 0,
                "cuts_mid_writes": 0, "postcut_uptodate_values_checked": 0}
    kinds_hit = set()
    bad = None
    sample_cut = None
    configs = [(1, "default", 0, None), (4, "random", 0, None), (1, "random", None, None), (4, "default", None, None), (1, "default", 0, 2), (4, "random", 0, 3)]
    if desc.get("tier") == "quick":
        configs = [configs[0], rng.choice(configs[1:])]
    sigs = []
    for (W, sched, maxerr, retry) in configs:
        for fk in ("exc", "base"):
            for k in range(1, K + 1):
                S.restore(snap)
                if retry is None:
                    f = history.Fault(H, k=k, kind=fk)
                    rkw = {}
                else:
                    # run(retry=n): an earlier operation fails once and is absorbed by the retry; the operation at event k keeps failing, so the
                    # run is cut there all the same (event numbers shift by the repeated attempts: k simply indexes the retried run's events)
                    f = history.Fault(H, k=k + 1, kind=fk, sticky=True, transient=rng.randint(1, k))
                    rkw = {"retry": retry}
                    counters["cut_runs_with_retry"] = counters.get("cut_runs_with_retry", 0) + 1
                f.install()
                try:
                    res, exc = S.run(out_ids, W=W, sched=sched, fresh_tick=fresh, max_errors=maxerr,
                                     perturb="line" if W > 1 and k % 3 == 0 else "none", seed=desc["seed"] + k, **rkw)
                finally:
                    f.uninstall()
                counters["cut_runs"] += 1
                if f.transient_fired is not None:
                    counters["transient_faults_absorbed_before_cut"] = counters.get("transient_faults_absorbed_before_cut", 0) + 1
                if f.fired is None:
                    counters["cuts_not_reached"] += 1
                    continue
                counters["cut_positions_hit"] += 1
                kinds_hit.add(f.fired[0])
                if exc is None:
                    bad = f"fault fired at event {k} {f.fired} but run returned normally"
                    break
                wrote = sum(1 for s_, kk, key, t_, x in H.events if kk == "wr_effect")
                if 0 < wrote < max(1, n_writes_total):
                    counters["cuts_mid_writes"] += 1
                cut_events = H.compact_history(60)
                post_state = S.state_desc()
                d = S.check_fresh_values(fresh)
                counters["postcut_uptodate_values_checked"] += sum(1 for i, o in S.ood(fresh).items() if not o)
                if d:
                    bad = f"after cut at event {k} {f.fired} ({fk}, W={W}, {sched}, max_errors={maxerr}, retry={retry}): {d}"
                else:
                    out2 = out_ids if k % 2 else None
                    exp = S.expect(out2, fresh)
                    res2, exc2 = S.run(out2, W=rng.choice([1, 4]), sched=sched, fresh_tick=fresh, seed=desc["seed"] + 1000 + k)
                    counters["repair_runs"] += 1
                    if exc2 is not None:
                        bad = f"repair run after cut at event {k} {f.fired} raised {exc2!r} (cause {exc2.__cause__!r})"
                    else:
                        d = S.check_counts(exp)
                        if d:
                            bad = (f"repair run after cut at event {k} {f.fired} ({fk}, W={W}, {sched}, max_errors={maxerr}, retry={retry}) did not rebuild exactly "
                                   f"the out-of-date values: {d}; post-cut state {post_state}")
                        else:
                            d = S.check_values(res2, out2)
                            if d:
                                bad = f"repair run after cut at event {k} {f.fired}: {d}"
                if sample_cut is None and wrote:
                    sample_cut = {"k": k, "fired": f.fired, "kind": fk, "W": W, "sched": sched, "post_cut_state": post_state}
                sigs.append(f"{k}{fk}{W}{sched}{maxerr}{retry}")
                if bad:
                    witness = {"plan": S.describe(200), "prefix": log, "state": state0, "out": out_ids, "fresh": fresh, "k": k, "fault": fk,
                               "W": W, "sched": sched, "max_errors": maxerr, "cut_run_events": cut_events, "post_cut_state": post_state}
                    break
            if bad:
                break
        if bad:
            break
    sig = hashlib.sha1(("\n".join(S.describe(200)) + f"|{state0}|{out_ids}|{fresh}").encode()).hexdigest()[:16]
    res_ = {"status": "ok", "counters": counters, "sets": {"boundary_kinds_cut": sorted(kinds_hit)},
            "nontrivial": counters["cuts_mid_writes"] > 0, "sig": sig}
    if desc["seed"] % 10 == 0 or bad:
        res_["sample"] = {"desc": desc, "plan": S.describe(10), "state": state0, "K": K, "a_cut": sample_cut}
    if bad:
        res_.update(status="violation", detail=bad, mechanism="cut-repair", witness=witness)
    return res_


def finalize(agg, tier):
    c = agg.counters
    reasons = []
    need = {"call", "rd", "wr_before", "wr_after", "mt"}
    if not need <= agg.sets.get("boundary_kinds_cut", set()):
        reasons.append(f"boundary kinds never cut: {sorted(need - agg.sets.get('boundary_kinds_cut', set()))}")
    if c["cut_positions_hit"] < c["cut_runs"] * 0.9:
        reasons.append(f"only {c['cut_positions_hit']} of {c['cut_runs']} cut positions were actually hit")
    if c["cuts_mid_writes"] < 50:
        reasons.append("fewer than 50 cuts between the first and last store write")
    return reasons


def coverage_extra(agg, tier):
    return {"exhaustive": False, "exhaustive_per_case": True,
            "explanation": "every cut index k <= K of each generated case was enumerated; the cases are sampled"}
