"""C01 - a call never starts before everything it depends on has finished successfully."""
import hashlib
import random

from vmon import env, plainrun, preempt

ID = "C01"
LEVEL = "exploration"
RULE = (
    "cases = seeded random plans (9 shape families; positional/keyword/dependency edges, parallel edges, containers, "
    "literal-routed dependencies, literal hubs on both sides of the pruning threshold, unpack) x max_workers x scheduler x "
    "{all calls succeed, some calls raise Exception/BaseException/CancelledError/CallError with max_errors letting the run go on} "
    "x schedule driver (bytecode-granular yield injection in the engine's code / LINE-granular / none); a case is "
    "non-trivial when at least one executed call had >= 2 distinct predecessor calls; distinct = different "
    "(plan structure, W, scheduler, observed global start/end order)"
)
ASSUMPTIONS = [
    "ordering is decided on a sequence counter stamped under one harness lock inside the plan's own functions",
    "the reference dependency relation is computed from the generator's IR, not from uberjob's graph",
    "schedules are sampled (perturbation makes preemption between any two engine bytecodes possible, not exhaustive)",
]


def gen_cases(tier, seed):
    n = 1600 if tier == "quick" else 25000
    maxcalls = 40 if tier == "quick" else 110
    out = []
    for i in range(n):
        s = env.seed_for(seed, ID, tier, i)
        r = random.Random(env.seed_for(s, "descriptor"))  # independent of the stream run_case derives from the same seed
        ncalls = r.randint(2, maxcalls) if r.random() < 0.85 else r.randint(2, 8)
        W = plainrun.pick_W(r, ncalls)
        faults = {}
        if r.random() < 0.25:
            # "finished executing SUCCESSFULLY": a predecessor that raises (any exception type) never releases its successors
            faults = {"faults": {"p": r.choice([0.1, 0.3]), "kinds": r.choice([["exc", "value"], ["base", "kbi", "sysexit", "genexit", "cancel"], ["callerr", "exc", "cancel"]])},
                      "max_errors": r.choice([None, None, 1, 3])}
        out.append({
            **faults,
            "seed": s, "n": ncalls, "W": W, "sched": r.choice(["default", "random"]),
            "perturb": r.choice(["instr", "instr", "instr", "line", "none"]) if W > 1 else "none",
            "cfg": {"out": r.choice(["all", "all", "sinks", "sinks", "struct", "node"])},
        })
    out.extend(preempt.gen_descs(tier, seed, ID))  # deterministic single-preemption enumeration (vmon/preempt.py)
    # two preemptions (lost-update shape); a join released twice shows as an ORDER violation only where a second join follows: more pairs there
    out.extend(preempt.gen_descs2(tier, seed, ID, focus=("join_then",), pairs_quick=40, pairs_focus=300))
    for i in range(n // 8):
        # runs WITH a registry: the dependencies of a call that executes are the same (followed through everything that executes or is rebuilt
        # in the run; an up-to-date stored value is read from its store and cuts the path)
        s = env.seed_for(seed, ID, tier, "registry", i)
        r = random.Random(env.seed_for(s, "descriptor"))
        out.append({"seed": s, "mode": "registry", "n": r.randint(3, 20), "W": r.choice([2, 3, 4, 8]), "sched": r.choice(["default", "random"]),
                    "perturb": r.choice(["line", "instr", "none"]), "steps": r.randint(1, 4)})
    for i in range(n // 5):
        # k calls finishing together -> literal -> d, and a slow e -> d: a literal processed twice (lost atomicity of decrement+test)
        # releases d while e is still running. Literals are the only nodes that can be processed twice without failing.
        s = env.seed_for(seed, ID, tier, "hubrace", i)
        r = random.Random(env.seed_for(s, "descriptor"))
        k = r.randint(2, 6)
        out.append({"seed": s, "mode": "hubrace", "k": k, "n": k + 2, "W": k + r.choice([1, 2, 4]), "sched": r.choice(["default", "random"]),
                    "perturb": r.choice(["instr", "instr", "line"]), "chain": r.randint(0, 2), "delays": "none"})
    return out


def hubrace_ir(desc):
    from vmon import ir as irmod

    ir = irmod.IR()
    ps = [ir.add("call", fname=f"fn{i % 3}") for i in range(desc["k"])]
    prev = ps
    lits = []
    for _ in range(1 + desc["chain"]):
        lit = ir.add("lit", value="hub")
        for p in prev:
            ir.deps.append((p.id, lit.id))
        lits.append(lit)
        prev = [lit]
    e = ir.add("call", fname="slow")
    # the literal is an ARGUMENT of d (a literal with plain-dependency successors only would be pruned and bridged)
    d = ir.add("call", fname="join", args=[irmod.ref(lits[-1].id), irmod.ref(e.id)])
    ir.output = irmod.ref(d.id)
    ir.meta["family"] = "hubrace"
    ir.meta["slow"] = e.id
    return ir


def check_history(ir, H):
    """Offline checker: every start(c) is preceded by end_ok(p) for every harness-call ancestor p of c."""
    preds = ir.preds()
    calls = set(ir.harness_calls())
    anc_cache = {}
    ended = set()
    checked = 0
    for seq, kind, nid, tid, extra in H.events:
        if kind == "end":
            ended.add(nid)
        elif kind == "start":
            if nid not in anc_cache:
                anc_cache[nid] = (ir.ancestors([nid], preds) - {nid}) & calls
            missing = anc_cache[nid] - ended
            checked += 1
            if missing:
                return checked, f"call n{nid} started at seq {seq} before its ancestor(s) {sorted(missing)[:5]} finished successfully"
    return checked, None


def contended_joins(ir, H):
    preds = ir.preds()
    calls = set(ir.harness_calls())
    end_tid = {nid: tid for _, k, nid, tid, _ in H.events if k == "end"}
    end_seq = {nid: s for s, k, nid, tid, _ in H.events if k == "end"}
    started = {nid for _, k, nid, _, _ in H.events if k == "start"}
    joins = multi = 0
    for nid in started:
        dp = [p for p in preds[nid] if p in calls and p in end_seq]
        if len(dp) >= 2:
            joins += 1
            last2 = sorted(dp, key=lambda p: end_seq[p])[-2:]
            if end_tid[last2[0]] != end_tid[last2[1]]:
                multi += 1
    return joins, multi


def run_registry(desc):
    from vmon import history, ir as irmod, regmodel

    rng = random.Random(desc["seed"])
    rp = regmodel.gen_regplan(rng, desc["n"])
    S = regmodel.Session(rp, desc["seed"])
    H, ir = S.H, S.ir
    calls = {n.id for n in ir.nodes if n.kind == "call"}
    bad = None
    raised = None
    checked = 0
    for step in range(desc["steps"]):
        if step:
            ps = [i for i in S.reg if rp.role[i] == "psrc"]
            dl = [i for i in S.reg if rp.role[i] in ("stored", "dsrc", "slit")]
            if ps and rng.random() < 0.5:
                i = rng.choice(ps)
                S.src_version[i] += 1
                S.stores[i].set_content(irmod.Val(("src", i), S.src_version[i]))
            elif dl:
                S.delete(rng.choice(dl))
        out_ids = history.choose_out(rng, S, rng.choice(["all", "some", "sinks", "one"]))
        exp = S.expect(out_ids, None)
        res, exc = S.run(out_ids, W=desc["W"], sched=desc["sched"], perturb=desc["perturb"], seed=desc["seed"] + step)
        if exc is not None and raised is None:
            # a clean registry run that raises is not what C01 decides - but whatever DID start in it is still held to the order, and so are
            # the following steps (from the stores as that run left them)
            raised = f"registry run raised {exc!r}"[:300]
        ended = set()
        for seq, kind, key, tid, extra in H.events:
            if kind == "end":
                ended.add(key)
            elif kind == "start":
                checked += 1
                missing = (S.eff_anc(exp, key) & calls) - ended
                if missing:
                    bad = (f"[registry run, step {step}] call n{key} started at seq {seq} before n{sorted(missing)[:5]}, which it depends on and which execute(s) in "
                           f"this run, had finished")
                    break
        if bad:
            break
    res_ = {"status": "ok", "counters": {"registry_runs": desc["steps"], "starts_checked": checked, "registry_starts_checked": checked}, "nontrivial": checked > 0,
            "sig": hashlib.sha1(("\n".join(S.describe(200)) + f"|reg|{desc['W']}|{desc['steps']}").encode()).hexdigest()[:16]}
    if bad:
        res_.update(status="violation", detail=bad, mechanism="early-start", witness={"plan": S.describe(200), "history": H.compact_history(600)})
    elif raised:
        return {"status": "inconclusive", "detail": raised}
    return res_


def run_case(desc):
    if desc.get("mode") == "registry":
        return run_registry(desc)
    if desc.get("mode") == "preempt1":
        return preempt.enumerate_case(desc, lambda R, ir: check_history(ir, R.H)[1])
    if desc.get("mode") == "preempt2":
        return preempt.enumerate_pairs(desc, lambda R, ir: check_history(ir, R.H)[1])
    if desc.get("mode") == "hubrace":
        import time

        import threading

        ir0 = hubrace_ir(desc)
        slow = ir0.meta["slow"]
        bar = threading.Barrier(desc["k"])

        def pre(nid, att):
            if nid == slow:
                time.sleep(0.004)
            elif nid < desc["k"]:
                try:
                    bar.wait(0.2)  # the k predecessors of the literal finish together
                except threading.BrokenBarrierError:
                    pass

        R = plainrun.execute(desc, record_args=False, ir=ir0, pre=pre)
    else:
        R = plainrun.execute(desc, record_args=False)
    ir, H = R.ir, R.H
    counters, sets = {}, {}
    checked, bad = check_history(ir, H)
    joins, multi = contended_joins(ir, H)
    counters.update(starts_checked=checked, joins_observed=joins, joins_last_two_preds_on_different_threads=multi,
                    events_recorded=len(H.events))
    plainrun.perturb_stats(R, counters, sets)
    oh = H.order_hash()
    sets["distinct_global_orders"] = [oh]
    res = {
        "status": "ok", "counters": counters, "sets": sets, "nontrivial": joins > 0,
        "sig": hashlib.sha1(("\n".join(ir.describe(200)) + f"|{desc['W']}|{desc['sched']}|{oh}").encode()).hexdigest()[:16],
    }
    if desc["seed"] % 400 == 0 or bad:
        res["sample"] = {"desc": desc, "plan": ir.describe(25), "history_head": H.compact_history(40),
                         "outcome": repr(R.exc) if R.exc else "returned"}
    if bad:
        res.update(status="violation", detail=bad, mechanism="early-start",
                   witness={"plan": ir.describe(200), "history": H.compact_history(2000), "W": desc["W"], "sched": desc["sched"]})
    elif R.exc is not None and not R.fail:
        res.update(status="inconclusive", detail=f"run raised unexpectedly: {R.exc!r} cause={R.exc.__cause__!r}")
    counters["runs_with_failing_predecessors"] = int(bool(R.fail))
    counters["hubrace_runs"] = int(desc.get("mode") == "hubrace")
    return res


def finalize(agg, tier):
    reasons = []
    c = agg.counters
    if c["joins_last_two_preds_on_different_threads"] < 50:
        reasons.append(f"only {c['joins_last_two_preds_on_different_threads']} joins had their last two predecessors end on different threads (need >= 50)")
    if c["preempt_holds_others_completed"] < 100:
        reasons.append("single-preemption enumeration: fewer than 100 holds during which the other predecessors completed their bookkeeping")
    if c["preempt2_ta_ran_to_end_while_tb_held"] < 200:
        reasons.append("two-preemption enumeration: fewer than 200 pairs in which the first worker ran on to the end while the second was held")
    if c["starts_checked"] < 1000:
        reasons.append("fewer than 1000 call starts were checked")
    if len(agg.sets.get("preemption_points_observed", ())) < 20:
        reasons.append("perturber observed fewer than 20 distinct preemption points inside engine code")
    return reasons
