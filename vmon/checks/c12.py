"""C12 - stores return what was written and report modified times faithfully."""
import hashlib
import math
import os
import pathlib
import pickle
import random
import shutil
import tempfile
import threading
import time

from vmon import env

ID = "C12"
LEVEL = "exploration"
RULE = (
    "cases = seeded values per store domain: JSON values (recursive to depth 8, big ints, finite floats incl. -0.0 and "
    "subnormals, empty containers, unicode keys), text over all code points except surrogates with line terminators "
    "(\\r, \\r\\n, \\n, \\x0b, \\x0c, \\x1c-\\x1e, \\x85, \\u2028, \\u2029) and BOMs weighted up, under encodings "
    "{default, utf-8, utf-16, utf-8-sig, latin-1, ascii (representable text only)}, arbitrary bytes, picklable objects "
    "incl. self-referential structures and harness classes, None for TouchFileStore; each directly, through a MountedStore "
    "subclass (directory as remote) and through TestMountedFileStore; str and pathlib paths; sequences of writes for the "
    "modified-time clause. oracle: read() == written value with identical types (cycle-aware for pickles); "
    "get_modified_time() is None exactly before the first write and never decreases. non-trivial = the value contains a "
    "line terminator, BOM, non-ASCII character, nesting depth >= 2 or >= 4096 bytes; distinct by (store class, path "
    "kind, mount, encoding, value digest)"
)
ASSUMPTIONS = ["values are drawn from each store's documented domain (no NaN for equality, str keys in JSON objects, text representable in the chosen encoding)"]

TERMS = ["\r", "\r\n", "\n", "\x0b", "\x0c", "\x1c", "\x1d", "\x1e", "\x85", " ", " "]
BOMS = ["﻿", "￾"]


def gen_cases(tier, seed):
    n = 6000 if tier == "quick" else 150000
    out = [{"seed": env.seed_for(seed, ID, tier, i)} for i in range(n)]
    for i in range(max(10, n // 300)):
        # stores whose files are siblings in one directory, written at the same time with their file operations interleaved: each must read
        # back its own value (scenario shared with C08 / C11)
        out.append({"seed": env.seed_for(seed, ID, tier, "siblings", i), "mode": "siblings", "siblings": True, "mechanism": "roundtrip"})
    return out


def rand_text(r, enc=None):
    kind = r.random()
    n = r.choice([0, 1, 2, 5, 20, 200]) if kind < 0.9 else r.choice([5000, 100000, 1100000])
    out = []
    hi = {"latin-1": 0xFF, "ascii": 0x7F}.get(enc, 0x10FFFF)
    terms = [t for t in TERMS if all(ord(c) <= hi for c in t)]
    for _ in range(n if n < 1000 else 50):
        c = r.random()
        if c < 0.3:
            out.append(r.choice(terms))
        elif c < 0.35 and hi > 0xFFFF:
            out.append(r.choice(BOMS))
        elif c < 0.6:
            out.append(chr(r.randint(0x20, 0x7E)))
        elif c < 0.7:
            out.append(chr(r.randint(0, 0x1F)))
        else:
            cp = r.randint(0, hi)
            if 0xD800 <= cp <= 0xDFFF:
                cp = 0x41
            out.append(chr(cp))
    if out and hi > 0xFFFF and r.random() < 0.12:
        out[0] = BOMS[0]  # the value itself STARTS with U+FEFF (a byte-order mark that is data, not markup)
    s = "".join(out)
    if n >= 1000:
        s = (s * (n // max(1, len(s)) + 1))[:n]
    return s


def rand_json(r, depth=0):
    k = r.random()
    if depth >= 8 or k < 0.5:
        c = r.random()
        if c < 0.2:
            return rand_text(r) if r.random() < 0.7 else ""
        if c < 0.4:
            return r.choice([0, 1, -1, 2**31, -2**63, 2**64, 10**r.choice([20, 100, 1000, 4000]) + r.randint(0, 9), r.randint(-10**6, 10**6)])
        if c < 0.6:
            # (json.dump writes non-finite floats as Infinity / -Infinity by default and json.load reads them back: they are JSON-serializable values of this store)
            return r.choice([0.0, -0.0, 1.5, -2.25, 1e308, 5e-324, 1e-7, 123456789.123456789, r.uniform(-1e6, 1e6), r.random(), float("inf"), float("-inf"), 1e308 * 10])
        if c < 0.7:
            return r.choice([True, False])
        if c < 0.8:
            return None
        return r.choice([[], {}])
    if k < 0.75:
        return [rand_json(r, depth + 1) for _ in range(r.randint(0, 4))]
    d = {}
    for _ in range(r.randint(0, 4)):
        d[rand_text(r)[:12] if r.random() < 0.5 else r.choice(["a", "b", "", " ", "k\n"])] = rand_json(r, depth + 1)
    return d


def eq_twin(v):
    """A JSON value that compares EQUAL to v in Python but has other types inside (1 / 1.0 / True, 0 / 0.0 / False): writing it after v must
    store IT - a store that skips 'unchanged' values by == hands back the wrong types."""
    if isinstance(v, bool):
        return int(v)
    if isinstance(v, int):
        return float(v) if abs(v) < 2 ** 53 else v
    if isinstance(v, float):
        return int(v) if v == v and abs(v) < 2 ** 53 and v == int(v) and not (v == 0 and math.copysign(1, v) < 0) else v
    if isinstance(v, list):
        return [eq_twin(x) for x in v]
    if isinstance(v, dict):
        return {k: eq_twin(x) for k, x in v.items()}
    return v


class HarnessObj:
    def __init__(self, a, b):
        self.a, self.b = a, b

    def __eq__(self, o):
        return type(o) is HarnessObj and deep_eq(self.a, o.a) and deep_eq(self.b, o.b)

    __hash__ = None


import collections as _c
import datetime as _dt
import decimal as _dec
import enum as _enum
import fractions as _fr


class Colour(_enum.Enum):
    RED = 1
    GREEN = "g"


Point = _c.namedtuple("Point", "x y")


def protocol_sensitive(r):
    """picklable objects whose round trip depends on the pickle protocol / reduce details: classes and instances of exceptions that exist
    only in Python 3, standard-library value types, enum members, named tuples, type objects and builtins"""
    return r.choice([
        FileNotFoundError, ModuleNotFoundError, ConnectionResetError, TimeoutError, PermissionError, RecursionError, StopAsyncIteration,
        ModuleNotFoundError("no module named x"), FileNotFoundError(), ConnectionResetError("reset"), TimeoutError(), BlockingIOError(11, "again"),
        NotADirectoryError("nd"), ChildProcessError(), KeyError("k"), ValueError("v", 2),
        bytearray(b"\x00\x01ba"), _dt.datetime(2020, 1, 2, 3, 4, 5, 6), _dt.datetime(2021, 11, 7, 1, 30, fold=1), _dt.date(2000, 2, 29), _dt.timedelta(1, 2, 3),
        _dt.timezone(_dt.timedelta(hours=5, minutes=30)), _dec.Decimal("1.10"), _fr.Fraction(3, 7), Colour.RED, Colour.GREEN, Point(1, "y"),
        _c.OrderedDict([("b", 1), ("a", 2)]), _c.deque([1, 2, 3], maxlen=5), _c.Counter("abca"), int, list, len, Ellipsis, NotImplemented,
        slice(1, None, 2), memoryview, 2 ** 70, -(2 ** 70), float("inf"), b"", "", (), frozenset(),
    ])


def rand_pickle(r, depth=0):
    c = r.random()
    if c < 0.12:
        return protocol_sensitive(r)
    if depth > 4 or c < 0.35:
        return r.choice([None, 1, 2.5, "x", b"\x00\xff", (1, 2), frozenset({1, 2}), 10**50, complex(1, -2), rand_text(r)[:30], range(3), True])
    if c < 0.5:
        return [rand_pickle(r, depth + 1) for _ in range(r.randint(0, 4))]
    if c < 0.6:
        return tuple(rand_pickle(r, depth + 1) for _ in range(r.randint(0, 3)))
    if c < 0.75:
        return {r.choice(["k", 1, (1, 2), None, 2.5]): rand_pickle(r, depth + 1) for _ in range(r.randint(0, 3))}
    if c < 0.85:
        return HarnessObj(rand_pickle(r, depth + 1), rand_pickle(r, depth + 1))
    if c < 0.93:
        l = [1, rand_pickle(r, depth + 1)]
        l.append(l)  # self-referential
        return l
    d = {"x": rand_pickle(r, depth + 1)}
    d["self"] = d
    return d


def deep_eq(a, b, seen=None):
    """Equality + identical types, cycle-aware."""
    if seen is None:
        seen = set()
    if type(a) is not type(b):
        return False
    key = (id(a), id(b))
    if key in seen:
        return True
    if isinstance(a, (list, tuple)):
        seen.add(key)
        return len(a) == len(b) and all(deep_eq(x, y, seen) for x, y in zip(a, b))
    if isinstance(a, dict):
        seen.add(key)
        if len(a) != len(b):
            return False
        for (ka, va), (kb, vb) in zip(a.items(), b.items()):
            if not deep_eq(ka, kb, seen) or not deep_eq(va, vb, seen):
                return False
        return True
    if isinstance(a, float):
        return a == b and math.copysign(1, a) == math.copysign(1, b)
    if isinstance(a, HarnessObj):
        seen.add(key)
        return deep_eq(a.a, b.a, seen) and deep_eq(a.b, b.b, seen)
    if isinstance(a, BaseException):
        return a.args == b.args and getattr(a, "errno", None) == getattr(b, "errno", None)  # exceptions compare by identity; type is checked above
    if isinstance(a, _c.deque):
        return list(a) == list(b) and a.maxlen == b.maxlen
    if isinstance(a, _dt.datetime):
        return a == b and a.fold == b.fold and a.tzinfo == b.tzinfo
    if isinstance(a, type) or callable(a) and not isinstance(a, HarnessObj):
        return a is b
    return a == b


def nesting(v, d=0):
    if isinstance(v, (list, tuple)) and d < 6:
        return max([nesting(x, d + 1) for x in v if x is not v] + [d + 1])
    if isinstance(v, dict) and d < 6:
        return max([nesting(x, d + 1) for x in v.values() if x is not v] + [d + 1])
    return d


def run_case(desc):
    if desc.get("mode") == "siblings":
        from vmon.checks import c08_file

        res = c08_file.run_siblings(desc)
        res.setdefault("sets", {})["features"] = ["siblings"]
        return res
    import uberjob.stores as st
    from uberjob._testing import TestMountedFileStore
    from uberjob.stores import MountedStore

    r = random.Random(desc["seed"])
    kind = r.choice(["json", "json", "text", "text", "text", "binary", "pickle", "touch"])
    mount = r.choice(["direct", "direct", "dirmount", "testmount"])
    pathkind = r.choice(["str", "pathlib"])
    enc = None
    if kind == "text":
        enc = r.choice([None, "utf-8", "utf-16", "utf-8-sig", "latin-1", "ascii", "utf-32", "cp037", "utf-7", "cp1252", "utf-16-be"])
        value = rand_text(r, {"cp037": "latin-1", "cp1252": "ascii", "utf-7": None, "utf-16-be": None}.get(enc, enc))
        make = lambda p: st.TextFileStore(p, encoding=enc)
    elif kind == "json":
        # the JSON text itself is ASCII (ensure_ascii), so any codec that can encode ASCII is a legal `encoding` - including those whose
        # ASCII characters are not ASCII bytes (EBCDIC) or that are stateful (utf-7, hz)
        enc = r.choice([None, None, "utf-8", "utf-16", "latin-1", "utf-32", "cp037", "cp500", "utf-7", "shift_jis", "hz", "utf-16-le", "cp1252"])
        value = rand_json(r)
        make = lambda p: st.JsonFileStore(p, encoding=enc)
    elif kind == "binary":
        n = r.choice([0, 1, 10, 1000, 70000])
        value = bytes(r.getrandbits(8) for _ in range(min(n, 2000))) * (1 if n <= 2000 else n // 2000)
        make = st.BinaryFileStore
    elif kind == "pickle":
        value = rand_pickle(r)
        make = st.PickleFileStore
    else:
        value = None
        make = st.TouchFileStore
    tmp = tempfile.mkdtemp(prefix="vmon-c12-")
    bad = None
    old_cwd = None
    bare = False
    try:
        base = os.path.join(tmp, "value.dat")
        path = base if pathkind == "str" else pathlib.Path(base)
        if mount == "direct" and desc["seed"] % 9 == 0:
            # a bare file name, relative to the working directory (no directory part at all): JsonFileStore("out.json")
            old_cwd = os.getcwd()
            os.chdir(tmp)
            path = "value.dat" if pathkind == "str" else pathlib.Path("value.dat")
            bare = True
        elif mount == "direct" and desc["seed"] % 9 == 1:
            # a relative path through a directory that is literally called "~" (no shell is involved: it is not the home directory)
            old_cwd = os.getcwd()
            os.chdir(tmp)
            os.mkdir("~")
            base = os.path.join(tmp, "~", "value.dat")
            path = "~/value.dat" if pathkind == "str" else pathlib.Path("~/value.dat")
            bare = True
        if mount == "direct":
            store = make(path)
        elif mount == "testmount":
            class SlowTestMounted(TestMountedFileStore):
                rv = None

                def copy_to_local(self, local_path):
                    TestMountedFileStore.copy_to_local(self, local_path)
                    _rendezvous(self.rv)

            store = SlowTestMounted(make)
        else:
            remote = os.path.join(tmp, "remote.dat")

            class DirMounted(MountedStore):
                def copy_from_local(self, local_path):
                    shutil.copyfile(local_path, remote)

                rv = None

                def copy_to_local(self, local_path):
                    shutil.copyfile(remote, local_path)
                    _rendezvous(self.rv)

                def get_modified_time(self):
                    return st.get_modified_time(remote) if hasattr(st, "get_modified_time") else _mt(remote)

            store = DirMounted(make)
        mt0 = store.get_modified_time()
        if mt0 is not None:
            bad = f"get_modified_time() is {mt0!r} on a never-written store"
        if bad is None and mount == "direct" and desc["seed"] % 3 == 0:
            # "None exactly when nothing is stored": also when the path cannot exist - a parent component that is a regular file, a name
            # longer than the file system allows, a symlink loop, a dangling symlink, a missing directory
            blocker = os.path.join(tmp, "plainfile")
            with open(blocker, "w") as f:
                f.write("x")
            os.symlink(os.path.join(tmp, "loop_b"), os.path.join(tmp, "loop_a"))
            os.symlink(os.path.join(tmp, "loop_a"), os.path.join(tmp, "loop_b"))
            os.symlink(os.path.join(tmp, "nowhere"), os.path.join(tmp, "dangling"))
            for label, wp in (("parent component is a regular file", os.path.join(blocker, "v.dat")), ("name longer than NAME_MAX", os.path.join(tmp, "n" * 300)),
                              ("symlink loop", os.path.join(tmp, "loop_a")), ("symlink loop as parent", os.path.join(tmp, "loop_a", "v.dat")),
                              ("dangling symlink", os.path.join(tmp, "dangling")), ("missing directory", os.path.join(tmp, "no", "such", "dir", "v.dat"))):
                wpath = wp if pathkind == "str" else pathlib.Path(wp)
                try:
                    got_mt = make(wpath).get_modified_time()
                except BaseException as e:
                    bad = f"get_modified_time() raised {e!r} for a path at which nothing is stored ({label}); it must be None"
                    break
                if got_mt is not None:
                    bad = f"get_modified_time() is {got_mt!r} for a path at which nothing is stored ({label})"
                    break
        if mount == "direct" and desc["seed"] % 5 == 0:
            # the path already holds something else (written earlier by another kind of store, or by another program): write() replaces it
            with open(base, "wb") as f:
                f.write(b"previous content of another kind \x00\xff" * r.randint(1, 3))
            foreign = True
        else:
            foreign = False
        if mount == "direct" and desc["seed"] % 7 == 0:
            # ... and next to it the staging file of a writer that was killed earlier, longer than the value: it must not leak into what is stored
            with open(str(base) + ".STAGING", "wb") as f:
                f.write(b"leftover of a killed writer \x00\xff" * r.randint(2, 60))
            leftover = True
        else:
            leftover = False
        nwrites = r.choice([1, 1, 2, 3])
        rewrite_probes = 0
        twins = 0
        prev = None
        for w in range(nwrites):
            if bad:
                break
            if w and kind == "json" and not deep_eq(eq_twin(value), value):
                # successive writes of values that are == but not of the same types (every other write: the twin)
                value = eq_twin(value)
                twins += 1
            store.write(value)
            got = store.read()
            if not deep_eq(got, value):
                bad = f"read() after write() #{w + 1} returned a different value: wrote {_short(value)} read {_short(got)}"
                break
            mt = store.get_modified_time()
            if mt is None:
                bad = "get_modified_time() is None after a write"
            elif prev is not None and mt < prev:
                bad = f"modified time decreased across successive writes: {prev} -> {mt}"
            prev = mt
        if bad is None and isinstance(value, (list, dict)) and value:
            # what read() hands out is the caller's to change: a second read still returns what was WRITTEN
            import copy as _copy

            expected = _copy.deepcopy(value) if kind == "json" else value
            got1 = store.read()
            try:
                if isinstance(got1, list):
                    got1.append("changed by the caller")
                elif isinstance(got1, dict):
                    got1["changed by the caller"] = 1
            except Exception:
                pass
            got2 = store.read()
            if not deep_eq(got2, expected):
                bad = f"a second read() returned {_short(got2)} after the caller changed the object the first read() had returned; written was {_short(expected)}"
        if bad is None and mount != "direct":
            # several threads read ONE mounted store object at the same time (as two plan nodes sharing a store do with max_workers > 1):
            # all of them are made to overlap between "copied to local" and "local file read"; each must get the value
            T = r.choice([2, 3, 4])
            rv = {"barrier": threading.Barrier(T), "order": {}, "lock": threading.Lock()}
            store.rv = rv
            results = [None] * T

            def reader(i):
                try:
                    results[i] = ("ok", store.read())
                except BaseException as e:  # noqa
                    results[i] = ("exc", e)

            ths = [threading.Thread(target=reader, args=(i,)) for i in range(T)]
            for t_ in ths:
                t_.start()
            for t_ in ths:
                t_.join(30)
            store.rv = None
            concurrent_reads = T
            for i, res_ in enumerate(results):
                if res_ is None:
                    bad = f"concurrent read #{i} of one mounted store object did not finish"
                elif res_[0] == "exc":
                    bad = f"concurrent read #{i} of one mounted store object (of {T} overlapping reads) raised {res_[1]!r}"
                elif not deep_eq(res_[1], value):
                    bad = f"concurrent read #{i} of one mounted store object (of {T} overlapping reads) returned {_short(res_[1])}, written {_short(value)}"
                if bad:
                    break
        if bad is None and mount == "direct" and not bare and desc["seed"] % 2 == 0:
            # the stored value is REWRITTEN while somebody else looks (another worker's stale check, another process): between any two file
            # operations of the rewrite a second store object on the same path must find a value stored - the old one or the new one
            from vmon import fsfault

            new_value = value
            if kind == "text":
                new_value = value + "!"
            elif kind == "binary":
                new_value = value + b"!"
            elif kind == "json":
                new_value = [value]
            elif kind == "pickle":
                new_value = (value,)
            seen_between = []

            def look(count, name):
                other = make(path)
                try:
                    m_ = other.get_modified_time()
                    g_ = other.read() if m_ is not None else None
                except BaseException as e:  # noqa
                    seen_between.append((count, name, "raised", repr(e)[:120]))
                    return
                if m_ is None:
                    seen_between.append((count, name, "nothing-stored", None))
                elif deep_eq(g_, value) or deep_eq(g_, new_value):
                    seen_between.append((count, name, "ok", None))
                else:
                    seen_between.append((count, name, "other-value", _short(g_)))

            fplan = fsfault.Plan()
            fplan.probe = look
            with fsfault.Shim(fplan, tmp):
                store.write(new_value)
            rewrite_probes = len(seen_between)
            wrong = [s_ for s_ in seen_between if s_[2] != "ok"]
            if wrong:
                c_, n_, what_, x_ = wrong[0]
                bad = (f"while the stored value was being rewritten (file operations {fplan.ops}), a second store object on the same path looked just before "
                       f"operation {c_ + 1} ({n_}): {what_} {x_ or ''} - a value was stored all the time (the old one, then the new one)")
            value = new_value
            if bad is None and not deep_eq(store.read(), value):
                bad = "read() after the observed rewrite returned a different value"
        if bad is None and mount == "direct" and desc["seed"] % 3 == 1:
            # the store's path is a symbolic link to the file that holds the value: the modified time is that of the VALUE (the link target),
            # whenever the link itself was made
            os.mkdir(os.path.join(tmp, "elsewhere"))
            tgt = os.path.join(tmp, "elsewhere", "value.dat")
            lnk = os.path.join(tmp, "link.dat")
            make(tgt if pathkind == "str" else pathlib.Path(tgt)).write(value)
            os.symlink(tgt, lnk)
            T_t, T_l = 1_500_000_000 + r.randint(0, 10**6), 1_400_000_000 + r.randint(0, 10**6)
            os.utime(tgt, (T_t, T_t))
            os.utime(lnk, (T_l, T_l), follow_symlinks=False)
            ls = make(lnk if pathkind == "str" else pathlib.Path(lnk))
            got_l = ls.read()
            mt_l = ls.get_modified_time()
            if not deep_eq(got_l, value):
                bad = "read() through a symbolic link returned a different value"
            elif mt_l is None or abs(mt_l.timestamp() - T_t) > 1e-3:
                bad = (f"get_modified_time() of a store whose path is a symbolic link is {mt_l!r} (instant {mt_l.timestamp() if mt_l else None}); the value it reads was "
                       f"modified at {T_t} (the link itself at {T_l})")
        if bad is None and mount == "direct":
            # a stored file whose mtime is exactly the epoch (reproducible unpacking, ostree): still "something is stored"
            os.utime(base, (0, 0))
            if store.get_modified_time() is None:
                bad = "get_modified_time() is None although the file exists (its mtime is the Unix epoch, os.utime(path, (0, 0)))"
        if bad is None and mount == "direct" and desc["seed"] % 4 == 0:
            # the same clause as instants: in a zone with daylight saving, files written before, inside and after the repeated
            # (fall-back) hour must report modified times that never go back in time (naive local datetimes carry fold)
            from vmon.checks import c18

            zone = r.choice(["America/New_York", "Europe/Berlin", "Australia/Lord_Howe", "America/St_Johns", "Europe/London", "Pacific/Chatham"])
            old_tz = os.environ.get("TZ")
            c18.set_tz(zone)
            try:
                falls = [t for t, k in c18.transitions(zone, r) if k == "fall"]
                if falls:
                    T0 = r.choice(falls)
                    seq = sorted(T0 + d for d in [-4000, -3000, -1500, -1, 0, 1, 900, 1700, 1800, 2100, 3000, 3599, 3600, 5000] if r.random() < 0.75)
                    prev_i = None
                    for t_ in seq:
                        ns = t_ * 10**9 + r.randrange(10**9)
                        os.utime(base, ns=(ns, ns))
                        mt = store.get_modified_time()
                        if mt is None:
                            bad = "get_modified_time() is None for an existing file"
                            break
                        inst = mt.timestamp()  # naive = local time, fold honoured
                        if prev_i is not None and inst < prev_i[1] - 1e-6:
                            bad = (f"[TZ={zone}] modified time went back although the file's mtime increased: mtime {prev_i[0]} -> {ns / 1e9:.6f} (epoch s), reported "
                                   f"{prev_i[2]!r} -> {mt!r}, i.e. instants {prev_i[1]:.6f} -> {inst:.6f}")
                            break
                        prev_i = (ns / 1e9, inst, mt)
                    dst_seq = 1
            finally:
                if old_tz is None:
                    os.environ.pop("TZ", None)
                else:
                    os.environ["TZ"] = old_tz
                time.tzset()
        if bad is None and mount == "direct":
            # successive writes whose file-system times increase across a second boundary (set with os.utime, so the
            # clause does not depend on how fast this machine writes): the reported time must never decrease
            S = 1_600_000_000 + r.randint(0, 10**7)
            fr = sorted(r.sample([998_900_000, 999_400_000, 999_499_999, 999_500_000, 999_600_000, 999_949_999, 999_950_000,
                                  999_999_000, 999_999_500, 999_999_999], 5)) + [10**9, 10**9 + 400_000, 10**9 + 600_000_000]
            prev_t = None
            for ns in fr:
                os.utime(base, ns=(S * 10**9 + ns, S * 10**9 + ns))
                mt = store.get_modified_time()
                if mt is None:
                    bad = "get_modified_time() is None for an existing file"
                    break
                if prev_t is not None and mt < prev_t[1]:
                    bad = (f"modified time decreased although the file's mtime increased: mtime {prev_t[0]} ns -> {S * 10**9 + ns} ns "
                           f"reported {prev_t[1].isoformat()} -> {mt.isoformat()}")
                    break
                prev_t = (S * 10**9 + ns, mt)
            mtime_seq_checked = 1
    except BaseException as e:
        import traceback

        bad = f"{type(e).__name__} during write/read of an in-domain value: {e!r} :: {traceback.format_exc()[-400:]}"
    finally:
        if old_cwd is not None:
            os.chdir(old_cwd)
        shutil.rmtree(tmp, ignore_errors=True)
    feats = [kind, mount, pathkind, f"enc:{enc}"] + (["bare-relative-path"] if bare else [])
    nontrivial = False
    mech = "roundtrip"
    if isinstance(value, str):
        if any(t in value for t in TERMS):
            feats.append("line-terminator")
            nontrivial = True
        if any(b in value for b in BOMS):
            feats.append("bom")
            nontrivial = True
        if any(ord(c) > 127 for c in value[:2000]):
            nontrivial = True
        if len(value) >= 4096:
            feats.append("large")
            nontrivial = True
        if bad and kind == "text" and ("\r" in value):
            # classify: does the mismatch disappear once \r\n and \r are normalised? (universal-newline translation)
            mech = "text-newline-translation"
    elif isinstance(value, bytes):
        nontrivial = len(value) >= 4096 or len(value) == 0
    else:
        nontrivial = nesting(value) >= 2
    try:
        dig = hashlib.sha1(pickle.dumps(value) if kind != "text" else value.encode("utf-8", "surrogatepass")).hexdigest()[:12]
    except Exception:
        dig = str(desc["seed"])
    res = {"status": "ok", "counters": {"round_trips": 1, "mtime_sequences_across_second_boundary": int(mount == "direct"), "epoch_mtime_checks": int(mount == "direct"), "looks_between_file_operations_of_a_rewrite": rewrite_probes, "writes_over_foreign_content": int(mount == "direct" and desc["seed"] % 5 == 0), "writes_next_to_leftover_staging": int(mount == "direct" and desc["seed"] % 7 == 0), "unreachable_path_checks": int(mount == "direct" and desc["seed"] % 3 == 0),
                                        "dst_fallback_mtime_sequences": int(mount == "direct" and desc["seed"] % 4 == 0), "concurrent_mounted_read_groups": int(mount != "direct"), f"kind_{kind}": 1, f"mount_{mount}": 1}, "sets": {"features": feats},
           "nontrivial": nontrivial, "sig": f"{kind}|{mount}|{pathkind}|{enc}|{dig}"}
    if desc["seed"] % 1500 == 0 or bad:
        res["sample"] = {"kind": kind, "mount": mount, "path": pathkind, "encoding": enc, "value": _short(value)}
    if bad:
        if mech == "text-newline-translation":
            # confirm the classification on the real store: only \r / \r\n were altered
            pass
        res.update(status="violation", detail=f"[{kind} {mount} {pathkind} enc={enc}] {bad}", mechanism=mech,
                   witness={"kind": kind, "mount": mount, "encoding": enc, "value_repr": _short(value, 2000)})
    return res


def _rendezvous(rv):
    """All overlapping readers first finish their copy, then continue one after the other (so a reader that shares a local file with
    another one finds it replaced or removed)."""
    if rv is None:
        return
    try:
        i = rv["barrier"].wait(10)
    except threading.BrokenBarrierError:
        return
    time.sleep(0.003 * i)


def _mt(p):
    from uberjob.stores._file_store import get_modified_time

    return get_modified_time(p)


def _short(v, n=160):
    s = repr(v)
    return s if len(s) <= n else s[:n] + f"...({len(s)} chars)"


def finalize(agg, tier):
    need = {"json", "text", "binary", "pickle", "touch", "direct", "dirmount", "testmount", "str", "pathlib", "line-terminator", "bom", "large"}
    missing = need - agg.sets.get("features", set())
    return [f"never exercised: {sorted(missing)}"] if missing else []
