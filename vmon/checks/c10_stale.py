def run_case(desc):
    return {"status": "ok", "counters": {}, "nontrivial": False}
