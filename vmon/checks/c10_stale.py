"""C10 'stale' mode: registry runs - bounds on concurrent modified-time queries and store operations; retry on store ops."""
import collections
import hashlib
import random
import time

from vmon import history, regmodel
from vmon.rec import InjectedError


def run_case(desc):
    seed = desc["seed"]
    rng = random.Random(seed)
    rp = regmodel.gen_regplan(rng, max(4, desc.get("n", 10)), family=rng.choice(["layers", "crisscross", "join", "random"]),
                              cfg={"p_store": 0.7, "p_dep": 0.1})
    S = regmodel.Session(rp, seed)
    H = S.H
    W = desc["W"]
    sW = desc.get("sW")
    retry_n = rng.choice([None, None, 2, 3, 6])
    flaky = {}
    if retry_n:
        for i in S.reg:
            for kind in ("mt", "rd", "wr_before"):
                if rng.random() < 0.25:
                    flaky[(kind, f"s{i}")] = rng.randint(1, retry_n - 1)
    seen = collections.Counter()
    out_ids = history.choose_out(rng, S)
    exp = S.expect(out_ids, None)
    # one store operation that keeps failing for n or more attempts in a row (it EXHAUSTS retry=n): it is attempted exactly n times, the run
    # fails, and the reported exception is the one of the n-th attempt - also when the operation would have succeeded at attempt n+1
    exhaust = None
    users_ = collections.Counter(S.store_name[i] for i in S.reg)
    if retry_n and rng.random() < 0.4:
        cands = [("rd", S.store_name[i]) for i in sorted(exp.reads)] + [("wr_before", S.store_name[i]) for i in sorted(exp.writes)] + [("mt", S.store_name[i]) for i in sorted(S.reg)]
        cands = [c_ for c_ in cands if users_[c_[1]] == 1]
        if cands:
            exhaust = (rng.choice(cands), rng.choice([retry_n, retry_n + 1, retry_n * retry_n - 1, 10 ** 6]))
            flaky.pop(exhaust[0], None)

    def hook(kind, st):
        with H.lock:
            seen[(kind, st.name)] += 1
            c = seen[(kind, st.name)]
        if exhaust is not None and exhaust[0] == (kind, st.name) and c <= exhaust[1]:
            raise InjectedError(f"exhausting {kind} {st.name} attempt {c}")
        j = flaky.get((kind, st.name))
        if j is not None and c <= j:
            raise InjectedError(f"flaky {kind} {st.name} attempt {c}")
        if kind in ("mt", "rd", "wr_before"):
            time.sleep(0.0002)

    H.store_hook = hook
    H.pre = lambda nid, att: time.sleep(0.0001)
    kw = {}
    custom_retry = 0
    if sW is not None:
        kw["stale_check_max_workers"] = sW
    if retry_n:
        kw["retry"] = retry_n
        if rng.random() < 0.35:
            # a custom retry decorator OBJECT with the same policy (n attempts) - one whose truth value is False (it keeps statistics and has
            # a length): it is honoured in the stale check, for store operations and for calls alike
            class CountingRetry:
                def __init__(self, n):
                    self.n = n
                    self.retries = []

                def __len__(self):
                    return 0

                def __call__(self, f):
                    def wrapper(*a, **k):
                        for att in range(self.n):
                            try:
                                return f(*a, **k)
                            except Exception:
                                if att == self.n - 1:
                                    raise
                    return wrapper

            kw["retry"] = CountingRetry(retry_n)
            custom_retry = 1
    res, exc = S.run(out_ids, W=W, sched=desc["sched"], **kw)
    bound_mt = sW if sW is not None else W
    bad = None
    exhaust_planned = exhaust is not None
    if exhaust is not None and seen[exhaust[0]] == 0:
        exhaust = None  # that operation is not performed in this run (e.g. a modified time nobody has to ask for): an ordinary run
    if H.max_mt_in_flight > bound_mt:
        bad = f"{H.max_mt_in_flight} modified-time queries ran concurrently; stale_check_max_workers={sW}, max_workers={W}"
    elif H.max_in_flight > W:
        bad = f"{H.max_in_flight} calls/store operations ran concurrently with max_workers={W}"
    elif exhaust is not None:
        (xkind, xname), jx = exhaust
        got = seen[(xkind, xname)]
        cause = exc.__cause__ if exc is not None else None
        if exc is None:
            bad = f"store operation {xkind} {xname} fails its first {jx} attempts, retry={retry_n}: run returned normally after {got} attempts (at most {retry_n} are allowed)"
        elif got != retry_n and isinstance(cause, InjectedError) and "exhausting" in str(cause):
            bad = f"store operation {xkind} {xname} fails its first {jx} attempts, retry={retry_n}: attempted {got} times (exactly {retry_n} expected)"
        elif isinstance(cause, InjectedError) and "exhausting" in str(cause) and not str(cause).endswith(f"attempt {retry_n}"):
            bad = f"store operation {xkind} {xname} exhausted retry={retry_n}: the reported exception is {cause!r}, not the one of the last attempt"
    elif exc is not None:
        bad = f"run raised {exc!r} (cause {exc.__cause__!r}) although every flaky store operation succeeds within retry={retry_n}"
    else:
        # attempts: each operation attempted at most n times and exactly (failures + 1) times
        users = collections.Counter()
        for i in S.reg:
            users[S.store_name[i]] += 1  # a store can be shared by a stored node and its alias source
        for (kind, name), j in flaky.items():
            base = {"wr_before": "wr"}.get(kind, kind)
            got = H.attempts_store.get((base, name), 0)
            allowed = {0} | {j + u for u in range(1, users[name] + 1)}
            if got not in allowed:
                bad = f"flaky store operation {base} {name} fails first {j} attempt(s), retry={retry_n}: attempted {got} times (expected one of {sorted(allowed)})"
                break
        if bad is None:
            d = S.check_counts_retry(exp, flaky) if flaky else S.check_counts(exp)
            if d:
                bad = "with retry on store operations: " + d
        if bad is None:
            d = S.check_values(res, out_ids)
            if d:
                bad = d
    n_reg = len(S.reg)
    counters = {"stale_runs": 1, "stale_mt_bound_reached": int(H.max_mt_in_flight == min(bound_mt, n_reg)),
                "stale_max_mt_in_flight": H.max_mt_in_flight, "stale_flaky_store_ops": len(flaky),
                "stale_runs_with_retry": int(bool(retry_n)), "stale_runs_with_falsy_custom_retry_object": custom_retry, "stale_runs_store_op_exhausts_retry": int(exhaust is not None), "stale_exhausting_op_not_performed": int(exhaust_planned and exhaust is None)}
    r = {"status": "ok", "counters": counters, "nontrivial": H.max_mt_in_flight >= 2 or bool(flaky),
         "sig": hashlib.sha1(("\n".join(S.describe(100)) + f"|{W}|{sW}|{retry_n}|{sorted(flaky)}").encode()).hexdigest()[:16]}
    if seed % 150 == 0 or bad:
        r["sample"] = {"desc": desc, "plan": S.describe(10), "max_mt_in_flight": H.max_mt_in_flight, "max_in_flight": H.max_in_flight,
                       "flaky": {f"{k[0]}:{k[1]}": v for k, v in list(flaky.items())[:8]}}
    if bad:
        r.update(status="violation", detail=bad, mechanism="limits-stale", witness={"plan": S.describe(100), "events": H.compact_history(800)})
    return r
