"""C09 - rebuilt stored values are written, then read back, before downstream use."""
import random

from vmon import env, histcheck

ID = "C09"
LEVEL = "exploration"
RULE = (
    "cases = seeded histories (as C03) with *normalising* stores only (read returns a fresh object that differs from what "
    "was written), W in {2,4,8} mostly, LINE/INSTRUCTION perturbation; offline checker on the stamped store/call history "
    "of every rebuilding run: write_end < read_start < consumer start, plain dependents after the write, downstream "
    "stored values rewritten later in the same run, consumers and the output hold the very object returned by the "
    "store's read (identity), out-of-date dependent sources read after their producer; non-trivial = a rebuilt value had "
    "an executing consumer; distinct by (structure, step sequence)"
)
ASSUMPTIONS = [
    "events are stamped under the harness lock inside the stores and the plan's functions",
]


def gen_cases(tier, seed):
    n = 500 if tier == "quick" else 5000
    out = []
    for i in range(n):
        s = env.seed_for(seed, ID, tier, i)
        r = random.Random(env.seed_for(s, "descriptor"))  # independent of the stream run_case derives from the same seed
        out.append({"seed": s, "n": r.randint(2, 22 if tier == "quick" else 55), "steps": r.randint(3, 12 if tier == "quick" else 22),
                    "all_normalising": True, "perturbs": ["line", "instr", "none"], "cfg": {"p_store": r.choice([0.5, 0.8])}})
    # "downstream of a rebuilt value is rebuilt in the same run" under single-preemption enumeration of the STALE CHECK: a join of two sources above a stored
    # value whose other stored input is being rebuilt and answers slowly (vmon/preempt.py, run_stale_join_then)
    for W in ((3,) if tier == "quick" else (3, 4, 8)):
        out.append({"seed": env.seed_for(seed, ID, tier, "stale_join_then", W), "mode": "preempt_stale_join", "W": W})
    return out


def run_case(desc):
    if desc.get("mode") == "preempt_stale_join":
        from vmon import preempt

        return preempt.enumerate_stale_join_then(desc)
    return histcheck.run_case(desc, "C09", ("C09",), "c09_rebuilt_with_executing_consumer")


def finalize(agg, tier):
    c = agg.counters
    reasons = []
    if c["c09_rebuilt_with_executing_consumer"] < 100:
        reasons.append("fewer than 100 rebuilt values with an executing consumer")
    if c["preempt_stale_join_holds_other_completed"] < 50:
        reasons.append("stale-check preemption (join_then): fewer than 50 holds during which the other source's worker completed its bookkeeping")
    if c["c09_normalising_identity_checks"] < 200:
        reasons.append("fewer than 200 identity checks against normalising stores")
    return reasons
