"""C09 - rebuilt stored values are written, then read back, before downstream use."""
import random

from vmon import env, histcheck

ID = "C09"
LEVEL = "exploration"
RULE = (
    "cases = seeded histories (as C03) with *normalising* stores only (read returns a fresh object that differs from what "
    "was written), W in {2,4,8} mostly, LINE/INSTRUCTION perturbation; offline checker on the stamped store/call history "
    "of every rebuilding run: write_end < read_start < consumer start, plain dependents after the write, downstream "
    "stored values rewritten later in the same run, consumers and the output hold the very object returned by the "
    "store's read (identity), out-of-date dependent sources read after their producer; non-trivial = a rebuilt value had "
    "an executing consumer; distinct by (structure, step sequence). mode registered_gather: a registered gathered list / tuple / dict of "
    "calls and literals behind a store whose read re-boxes every element, taken apart by Plan.unpack or indexing, store absent / out of "
    "date / up to date: every consumer of a part holds a part of what read returned (identity), after the single write"
)
ASSUMPTIONS = [
    "events are stamped under the harness lock inside the stores and the plan's functions",
]


def gen_cases(tier, seed):
    n = 500 if tier == "quick" else 5000
    out = []
    for i in range(n):
        s = env.seed_for(seed, ID, tier, i)
        r = random.Random(env.seed_for(s, "descriptor"))  # independent of the stream run_case derives from the same seed
        out.append({"seed": s, "n": r.randint(2, 22 if tier == "quick" else 55), "steps": r.randint(3, 12 if tier == "quick" else 22),
                    "all_normalising": True, "perturbs": ["line", "instr", "none"], "cfg": {"p_store": r.choice([0.5, 0.8])}})
    # "downstream of a rebuilt value is rebuilt in the same run" under single-preemption enumeration of the STALE CHECK: a join of two sources above a stored
    # value whose other stored input is being rebuilt and answers slowly (vmon/preempt.py, run_stale_join_then)
    for W in ((3,) if tier == "quick" else (3, 4, 8)):
        out.append({"seed": env.seed_for(seed, ID, tier, "stale_join_then", W), "mode": "preempt_stale_join", "W": W})
    # a REGISTERED gathered container (plan.gather of symbolic values: list, tuple, dict, nested) that is taken apart again with Plan.unpack or
    # indexing: the parts its consumers receive are parts of what the store's read returned, never the element calls' in-memory results
    for i in range(150 if tier == "quick" else 3000):
        out.append({"seed": env.seed_for(seed, ID, tier, "registered_gather", i), "mode": "registered_gather"})
    return out


def run_case(desc):
    if desc.get("mode") == "preempt_stale_join":
        from vmon import preempt

        return preempt.enumerate_stale_join_then(desc)
    if desc.get("mode") == "registered_gather":
        return run_registered_gather(desc)
    return histcheck.run_case(desc, "C09", ("C09",), "c09_rebuilt_with_executing_consumer")


class Boxed:
    """What the normalising store hands out in place of each element it was given: never identical to anything a call returned."""

    __slots__ = ("inner", "read_no")

    def __init__(self, inner, read_no):
        self.inner, self.read_no = inner, read_no

    def __repr__(self):
        return f"Boxed({self.inner!r}, read {self.read_no})"


def run_registered_gather(desc):
    import datetime as dt
    import hashlib
    import threading

    import uberjob

    rng = random.Random(desc["seed"])
    lock = threading.Lock()
    ev = []  # (what, ...) in real order, stamped under the lock

    class GStore(uberjob.ValueStore):
        def __init__(self, mtime):
            self.mtime, self.content, self.reads = mtime, None, 0

        def read(self):
            with lock:
                self.reads += 1
                c = self.content
                out = ({k: Boxed(v, self.reads) for k, v in c.items()} if isinstance(c, dict) else type(c)(Boxed(v, self.reads) for v in c))
                ev.append(("read", out))
                return out

        def write(self, value):
            with lock:
                ev.append(("write", value))
                self.content, self.mtime = value, dt.datetime(2030, 1, 1)

        def get_modified_time(self):
            return self.mtime

    n = rng.randint(1, 4)
    shape = rng.choice(["tuple", "tuple", "list", "dict"])
    access = rng.choice(["unpack", "unpack", "getitem"]) if shape != "dict" else "getitem"
    state = rng.choice(["absent", "stale", "fresh", "fresh"])
    W = rng.choice([1, 2, 4])
    plan = uberjob.Plan()
    reg = uberjob.Registry()
    raw = [object() for _ in range(n)]

    def make(j):
        def element():
            with lock:
                ev.append(("element", j))
            return raw[j]
        return element

    elems = [plan.call(make(j)) for j in range(n)]
    if rng.random() < 0.3 and n > 1:
        elems[-1] = plan.lit(raw[-1])  # a gathered container of calls and plain literals
    keys = [f"k{j}" for j in range(n)]
    g = plan.gather({"tuple": tuple(elems), "list": list(elems), "dict": dict(zip(keys, elems))}[shape])
    src_time = dt.datetime(2020, 1, 1)
    st = GStore({"absent": None, "stale": dt.datetime(2019, 1, 1), "fresh": dt.datetime(2021, 1, 1)}[state])
    if state != "absent":
        st.content = {"tuple": tuple(raw), "list": list(raw), "dict": dict(zip(keys, raw))}[shape]
    reg.add(g, st)
    if state == "stale":
        # something upstream newer than the stored container
        from uberjob.stores import LiteralSource
        s0 = reg.source(plan, LiteralSource(0, src_time))
        plan.add_dependency(s0, g)
    if access == "unpack":
        parts = list(plan.unpack(g, n))
    else:
        import operator
        parts = [plan.call(operator.getitem, g, (keys[j] if shape == "dict" else j)) for j in range(n)]
    got = {}

    def consumer(j, x):
        with lock:
            got[j] = x
            ev.append(("consume", j))
        return x

    outs = [plan.call(consumer, j, parts[j]) for j in range(n)]
    res = uberjob.run(plan, output=outs, registry=reg, max_workers=W, progress=None, scheduler=rng.choice(["default", "random"]))
    bad = None
    reads = [e[1] for e in ev if e[0] == "read"]
    rebuilt = state != "fresh"
    n_elem = sum(1 for e in ev if e[0] == "element")
    checks = 0
    if not reads:
        bad = "the registered container was never read from its store although its parts were consumed"
    else:
        handed = reads[-1] if len(reads) == 1 else None
        for j in range(n):
            x = got.get(j)
            checks += 1
            cand = [(r[keys[j]] if shape == "dict" else r[j]) for r in reads]
            if not any(x is c for c in cand):
                bad = (f"consumer {j} of a part of the registered {shape} received {x!r}, which is not a part of what the store's read returned "
                       f"({'the in-memory result of the element call' if x is raw[j] else 'something else'}; store was {state}, access by {access})")
                break
            if res[j] is not x:
                bad = f"run's output {j} is not what consumer {j} returned"
                break
    if not bad and rebuilt:
        wi = [k for k, e in enumerate(ev) if e[0] == "write"]
        ri = [k for k, e in enumerate(ev) if e[0] == "read"]
        ci = [k for k, e in enumerate(ev) if e[0] == "consume"]
        if len(wi) != 1:
            bad = f"the out-of-date container ({state}) was written {len(wi)} times"
        elif not all(any(wi[0] < r < c for r in ri) for c in ci):
            bad = f"order of write / read / consumers broken: {[e[0] for e in ev]}"
    if not bad and not rebuilt and (n_elem or any(e[0] == "write" for e in ev)):
        bad = f"the stored container was up to date, yet {n_elem} element calls ran / it was written"
    r = {"status": "ok", "counters": {"registered_gather_cases": 1, "c09_normalising_identity_checks": checks, f"registered_gather_{shape}_{access}": 1,
                                      f"registered_gather_store_{state}": 1, "c09_rebuilt_with_executing_consumer": int(rebuilt)},
         "nontrivial": True, "sig": hashlib.sha1(f"rg{n}{shape}{access}{state}{W}".encode()).hexdigest()[:16]}
    if bad:
        r.update(status="violation", detail=f"[registered gather, {shape} of {n}, {access}, store {state}, W={W}] {bad}", mechanism="c09-registered-gather",
                 witness={"shape": shape, "n": n, "access": access, "state": state, "W": W, "events": [e[0] for e in ev]})
    return r


def finalize(agg, tier):
    c = agg.counters
    reasons = []
    if c["c09_rebuilt_with_executing_consumer"] < 100:
        reasons.append("fewer than 100 rebuilt values with an executing consumer")
    if c["preempt_stale_join_holds_other_completed"] < 50:
        reasons.append("stale-check preemption (join_then): fewer than 50 holds during which the other source's worker completed its bookkeeping")
    if c["registered_gather_tuple_unpack"] < 10 or c["registered_gather_cases"] < 100:
        reasons.append("fewer than 100 registered-gather cases (10 with a tuple taken apart by Plan.unpack)")
    if c["c09_normalising_identity_checks"] < 200:
        reasons.append("fewer than 200 identity checks against normalising stores")
    return reasons
