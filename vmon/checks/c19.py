"""C19 - a failure is attributed to the user line that created the failing symbolic call."""
import _thread
import hashlib
import random
import sys
import threading

from vmon import env

ID = "C19"
LEVEL = "exploration"
RULE = (
    "cases = generated builder modules (compiled from source text) that create one failing symbolic call of a seeded kind "
    "(plan.call, explicit gather, implicit gather inside call, unpack, registry.add with failing write / failing read-back, "
    "registry.source with failing read / run without registry, failing modified-time query of a stored node / of a source) at "
    "nesting depth 0..8 below the thread's outermost frame, directly or inside a helper function, executed either on a bare "
    "thread (so chains shallower than, equal to and deeper than the depth limit all occur) or on the harness stack; W in "
    "{1,4}. oracle = the sys._getframe chain captured by `here(tag); node = plan.call(...)` on the same source line in the "
    "same frame: CallError.call must be the failing node, its stack_frame chain must equal the first limit+1 captured frames "
    "followed by the truncation marker iff more exist, and str(error) must list exactly those frames outermost first. "
    "non-trivial = chain of a kind other than plan.call or at a depth >= limit; distinct by (kind, depth, helper, thread mode)"
)
ASSUMPTIONS = ["the capture helper and the uberjob call are on one source line (same f_lineno)", "depth limit read from uberjob._util.traceback.MAX_TRACEBACK_DEPTH"]

MODNAMES = ["gen_builder", "uberjob_pipelines", "uberjobx.build", "my.uberjob.jobs", "__main__"]
KINDS = ["call_multiline", "unpack_nested_gather", "call_in_genexpr", "nested_callerror", "src_read_shared", "call", "gather_explicit", "gather_implicit", "unpack", "reg_write", "reg_readback", "src_read", "src_noreg", "mtime_stored", "mtime_source", "mtime_unpack_item", "call_exit_chain",
         "gather_nested_set", "gather_nested_dictkey", "gather_nested_implicit", "gather_nested_deep"]


def gen_cases(tier, seed):
    n = 2400 if tier == "quick" else 15000
    out = []
    for i in range(n):
        s = env.seed_for(seed, ID, tier, i)
        r = random.Random(env.seed_for(s, "descriptor"))  # independent of the stream run_case derives from the same seed
        out.append({"seed": s, "kind": r.choice(KINDS), "depth": r.choice([0, 0, 0, 1, 1, 2, 3, 4, 5, 8]), "helper": r.random() < 0.3,
                    "bare_thread": r.random() < 0.75, "W": r.choice([1, 4]), "filler": r.randint(0, 5),
                    "copy_reg": r.random() < 0.35,
                    "recursive": r.choice([0, 0, 0, 1, 2, 3, 6]),  # the creating helper calls itself: several captured frames share function, file and line
                    # where the user's builder module is installed (the code is compiled under that file name): a source checkout, a pip-installed
                    # team library, a distribution package, a notebook directory - attribution never depends on it
                    "srcdir": r.choice(["/verif/scratch/gen", "/verif/scratch/gen", "/opt/team/lib/python3.12/site-packages/teamplans", "/usr/lib/python3/dist-packages/jobs",
                                        "/home/u/IPython-notebooks/core-plans", "/srv/app/lib/uberjob_plans"]),
                    "at_import": r.random() < 0.15,
                    "modname": r.choice(MODNAMES),
                    # call sites written over several source lines (the line of a frame is where its call expression STARTS, as sys._getframe says);
                    # a program that has set sys.tracebacklimit to shorten Python's own tracebacks: symbolic tracebacks are not Python tracebacks
                    "multiline": r.random() < 0.3, "tblimit": r.choice([None, None, None, None, 0, 1, 3])})
    for i in range(max(6, n // 200)):
        out.append({"seed": env.seed_for(seed, ID, tier, "concurrent_build", i), "kind": "concurrent_build", "n": 300, "depth": 0, "helper": False, "W": 1,
                    "srcdir": "/verif/scratch/gen"})  # __name__ of the user's builder module (nothing about uberjob may depend on it)  # run with registry.copy(): the copy must attribute failures to the same lines
    return out


CREATE = {
    "call": "here('X'); node = plan.call(K.boom); K.out = node",
    "call_multiline": "here('X'); node = plan.call(\n{ind}    K.boom_args, 1,\n{ind}    2,\n{ind}    k=[3,\n{ind}       4],\n{ind}); K.out = node",
    # created inside a generator expression: the innermost frame is <genexpr>, then the function that consumes it
    "call_in_genexpr": "t = tuple((here('X'), plan.call(K.boom))[1] for _ in range(1)); K.out = t[0]",
    # the plan's function fails with a CallError of ANOTHER plan (it ran a nested plan that failed): the error of THIS run names this call
    "nested_callerror": "here('X'); node = plan.call(K.boom_callerror); K.out = node",
    "gather_explicit": "a = plan.call(K.mklist)\n{ind}here('X'); node = plan.gather({{a}}); K.out = node",
    "gather_implicit": "a = plan.call(K.mklist)\n{ind}here('X'); c = plan.call(K.ident, {{a}}); K.out = c",
    # nested structures: every gather call created for one value carries the line of that plan.gather / plan.call
    "gather_nested_set": "a = plan.call(K.mklist)\n{ind}here('X'); node = plan.gather([{{a}}, 1]); K.out = node",
    "gather_nested_dictkey": "a = plan.call(K.mklist)\n{ind}here('X'); node = plan.gather(({{'k': {{a: 1}}}}, 2)); K.out = node",
    "gather_nested_implicit": "a = plan.call(K.mklist)\n{ind}here('X'); c = plan.call(K.ident, [1, ({{a}}, 2)]); K.out = c",
    "gather_nested_deep": "a = plan.call(K.mklist)\n{ind}here('X'); node = plan.gather({{'p': [({{a}},)], 'q': 1}}); K.out = node",
    # one store object sourced on two different lines; the run depends on the SECOND: a failed read belongs to that line
    "src_read_shared": "K.shared = K.BadRead(present=True); s0 = registry.source(plan, K.shared)\n{ind}here('X'); s = registry.source(plan, K.shared)\n{ind}y = plan.call(K.ident, s); K.out = y",
    # the iterable handed to unpack is a plain container holding nodes: the gather calls made for it belong to the unpack line as well
    "unpack_nested_gather": "a = plan.call(K.mklist)\n{ind}here('X'); u = plan.unpack([{{a}}, 1], 2); K.out = u[0]",
    "unpack": "a = plan.call(K.mk2)\n{ind}here('X'); u = plan.unpack(a, 3); K.out = u[0]",
    "reg_write": "x = plan.call(K.ok)\n{ind}here('X'); registry.add(x, K.BadWrite()); K.out = None",
    "reg_readback": "x = plan.call(K.ok)\n{ind}here('X'); registry.add(x, K.BadRead())\n{ind}y = plan.call(K.ident, x); K.out = y",
    "src_read": "here('X'); s = registry.source(plan, K.BadRead(present=True))\n{ind}y = plan.call(K.ident, s); K.out = y",
    "src_noreg": "here('X'); s = registry.source(plan, K.Good()); K.out = s; K.use_registry = False",
    "mtime_stored": "here('X'); x = plan.call(K.ok)\n{ind}registry.add(x, K.BadMtime()); K.out = None",
    "mtime_source": "here('X'); s = registry.source(plan, K.BadMtime())\n{ind}y = plan.call(K.ident, s); K.out = y",
    # the failing call is the ONLY dependent of a call that succeeded, and what it raises is not an Exception (sys.exit() inside a call): the
    # error still names the call that failed, created on this line
    "call_exit_chain": "x = plan.call(K.ok)\n{ind}w = plan.call(K.ident, x)\n{ind}here('X'); node = plan.call(K.boom_exit, w); K.out = node; K.use_registry = False",
    # the examined node is an ITEM of an unpack (one of the getitem calls it creates): its line is the unpack line
    "mtime_unpack_item": "a = plan.call(K.mk2)\n{ind}here('X'); u = plan.unpack(a, 2)\n{ind}registry.add(u[1], K.BadMtime()); K.out = None",
}


def make_source(desc):
    depth, kind = desc["depth"], desc["kind"]
    lines = ["# generated builder module"] + ["#"] * desc["filler"]
    body = CREATE[kind]
    if desc["helper"]:
        if desc.get("recursive"):
            lines.append("def helper(plan, registry, here, K, n=%d):" % desc["recursive"])
            lines.append("    if n > 0:")
            lines.append("        return helper(plan, registry, here, K, n - 1)")
        else:
            lines.append("def helper(plan, registry, here, K):")
        lines.append("    " + body.format(ind="    "))
        lines.append("    return 1")
        inner = "helper(plan,\n        registry, here,\n        K)" if desc.get("multiline") else "helper(plan, registry, here, K)"
    else:
        inner = None
    for d in range(depth, -1, -1):
        lines.append(f"def level{d}(plan, registry, here, K):")
        if d == depth:
            if inner:
                lines.append(f"    {inner}")
            elif desc.get("at_import"):
                # the plan is built by the BODY of a module (a pipeline definition executed at import time) that this function loads: the
                # creating line is in a <module> frame that is not the outermost frame - the enclosing frames are user code all the same
                inner_src = "# pipeline definitions\n" + body.format(ind="") + "\n"
                inner_name = desc.get("srcdir", "/verif/scratch/gen") + f"/c19_{desc['seed']}_defs.py"
                lines.append(f"    exec(compile({inner_src!r}, {inner_name!r}, 'exec'), dict(plan=plan, registry=registry, here=here, K=K, __name__='pipeline_defs'))")
            else:
                lines.append("    " + body.format(ind="    "))
        elif desc.get("multiline"):
            lines.append(f"    level{d + 1}(plan,")
            lines.append("        registry,")
            lines.append("        here, K)")
        else:
            lines.append(f"    level{d + 1}(plan, registry, here, K)")
        lines.append("    return None")
    lines.append("def entry(plan, registry, here, K):")
    lines.append("    level0(plan, registry, here, K)")
    return "\n".join(lines) + "\n"


def same_frames(got, want):
    """The frames uberjob recorded are the captured ones: same file, same line, same order. The function NAME may follow either of Python's
    conventions (co_name, as tracebacks print it, or co_qualname): attribution is to source lines, the property says nothing about naming."""
    return len(got) == len(want) and all(g[1] == w[1] and g[2] == w[2] and g[0] in (w[0], w[3]) for g, w in zip(got, want))


def run_concurrent_build(desc):
    """Two threads add calls with structured arguments to ONE plan at the same time, each from its own source line: every call and every
    gather call made for its arguments carries the line (and enclosing frames) of the thread that created it."""
    import sys
    import threading

    import uberjob

    src = ("def build_a(plan, a, out, n):\n"
           "    for i in range(n):\n"
           "        out.append(plan.call(len, [a, {a}, (i, a)]))\n"
           "def build_b(plan, b, out, n):\n"
           "    for i in range(n):\n"
           "        out.append(plan.gather({'k': [b], 'i': i}))\n")
    fname = f"{desc.get('srcdir', '/verif/scratch/gen')}/c19_conc_{desc['seed']}.py"
    ns = {}
    exec(compile(src, fname, "exec"), ns)
    plan = uberjob.Plan()
    a = plan.call(int)
    b = plan.call(int)
    outs = {"a": [], "b": []}
    n = desc.get("n", 300)
    start = threading.Barrier(2)
    errs = []

    def runner(tag, fn, node):
        try:
            start.wait(5)
            fn(plan, node, outs[tag], n)
        except BaseException as e:
            errs.append(repr(e))

    old = sys.getswitchinterval()
    sys.setswitchinterval(1e-6)
    try:
        ts = [threading.Thread(target=runner, args=("a", ns["build_a"], a)), threading.Thread(target=runner, args=("b", ns["build_b"], b))]
        for t_ in ts:
            t_.start()
        for t_ in ts:
            t_.join(60)
    finally:
        sys.setswitchinterval(old)
    if errs:
        return {"status": "inconclusive", "detail": f"concurrent building raised {errs[0]}"}
    want = {"a": ("build_a", 3), "b": ("build_b", 6)}
    bad = None
    checked = 0
    for tag in ("a", "b"):
        fn_name, line = want[tag]
        for nd in outs[tag]:
            # the node itself and every gather call upstream of it that this statement created
            st = [nd]
            seen = set()
            while st and bad is None:
                c = st.pop()
                if id(c) in seen or c is a or c is b or not hasattr(c, "stack_frame"):
                    continue
                seen.add(id(c))
                sf = c.stack_frame
                checked += 1
                if sf is None or (sf.name, sf.path, sf.line) != (fn_name, fname, line):
                    got = None if sf is None else (sf.name, sf.path.split("/")[-1], sf.line)
                    bad = (f"a {getattr(c.fn, '__name__', c.fn)} call created by thread {tag} on line {line} ({fn_name}) carries the call site {got}")
                    break
                st.extend(p_ for p_ in plan.graph.predecessors(c))
            if bad:
                break
    res = {"status": "ok", "counters": {"cases": 1, "concurrent_build_cases": 1, "concurrent_build_calls_checked": checked}, "nontrivial": True,
           "sets": {"kinds": ["concurrent_build"]}, "sig": f"conc|{desc['seed'] % 100000}"}
    if bad:
        res.update(status="violation", mechanism="attribution", detail=f"[two threads building on one plan] {bad}")
    return res


def run_case(desc):
    if desc.get("kind") == "concurrent_build":
        return run_concurrent_build(desc)
    import uberjob
    from uberjob import ValueStore
    from uberjob._util import traceback as ubt
    import datetime as dt

    LIMIT = ubt.MAX_TRACEBACK_DEPTH

    class Boom(Exception):
        pass

    class K:
        out = None
        use_registry = True

        @staticmethod
        def boom():
            raise Boom("boom")

        @staticmethod
        def boom_args(*a, **k):
            raise Boom("boom")

        @staticmethod
        def boom_exit(x):
            raise SystemExit(f"giving up on {x}")

        @staticmethod
        def boom_callerror():
            inner = uberjob.Plan()
            c = inner.call(K.boom)
            uberjob.run(inner, output=c, progress=None)

        @staticmethod
        def ok():
            return 1

        @staticmethod
        def ident(x):
            return x

        @staticmethod
        def mklist():
            return [1]

        @staticmethod
        def mk2():
            return (1, 2)

        class Good(ValueStore):
            def read(self):
                return 5

            def write(self, v):
                pass

            def get_modified_time(self):
                return dt.datetime(2020, 1, 1)

        class BadWrite(ValueStore):
            def read(self):
                return 5

            def write(self, v):
                raise Boom("write")

            def get_modified_time(self):
                return None

        class BadRead(ValueStore):
            def __init__(self, present=False):
                self.present = present

            def read(self):
                raise Boom("read")

            def write(self, v):
                pass

            def get_modified_time(self):
                return dt.datetime(2020, 1, 1) if self.present else None

        class BadMtime(ValueStore):
            def read(self):
                return 5

            def write(self, v):
                pass

            def get_modified_time(self):
                raise Boom("mtime")

    captured = {}

    def here(tag):
        fr = sys._getframe(1)
        chain = []
        while fr is not None:
            chain.append((fr.f_code.co_name, fr.f_code.co_filename, fr.f_lineno, getattr(fr.f_code, "co_qualname", fr.f_code.co_name)))
            fr = fr.f_back
        captured[tag] = chain

    src = make_source(desc)
    fname = f"{desc.get('srcdir', '/verif/scratch/gen')}/c19_{desc['seed']}.py"
    ns = {"__name__": desc.get("modname", "gen_builder")}
    exec(compile(src, fname, "exec"), ns)
    plan = uberjob.Plan()
    registry = uberjob.Registry()
    err = []
    had_tbl = hasattr(sys, "tracebacklimit")
    old_tbl = getattr(sys, "tracebacklimit", None)
    if desc.get("tblimit") is not None:
        sys.tracebacklimit = desc["tblimit"]
    try:
        return _run_case_body(desc, ns, plan, registry, err, K, here, captured, src, LIMIT)
    finally:
        if had_tbl:
            sys.tracebacklimit = old_tbl
        elif hasattr(sys, "tracebacklimit"):
            del sys.tracebacklimit


def _run_case_body(desc, ns, plan, registry, err, K, here, captured, src, LIMIT):
    import uberjob

    if desc["bare_thread"]:
        done = threading.Event()

        def target():
            try:
                ns["entry"](plan, registry, here, K)
            except BaseException as e:  # pragma: no cover
                err.append(e)
            finally:
                done.set()

        _thread.start_new_thread(target, ())
        done.wait(30)
    else:
        ns["entry"](plan, registry, here, K)
    if err or "X" not in captured:
        return {"status": "inconclusive", "detail": f"builder failed: {err!r}"}
    chain = captured["X"]
    if desc["bare_thread"]:
        # the bare thread's outermost frame is `target`; everything above is user code
        pass
    want = chain[: LIMIT + 1]
    truncated = len(chain) > LIMIT + 1
    exc = None
    try:
        uberjob.run(plan, output=K.out, registry=(registry.copy() if desc.get("copy_reg") else registry) if K.use_registry else None, max_workers=desc["W"], progress=None)
    except BaseException as e:
        exc = e
    bad = None
    got = None
    if not isinstance(exc, uberjob.CallError):
        bad = f"expected CallError, got {exc!r}"
    else:
        call = exc.call
        got = []
        sf = call.stack_frame
        got_trunc = False
        while sf is not None:
            if type(sf).__name__ == "TruncatedStackFrameType":
                got_trunc = True
                break
            got.append((sf.name, sf.path, sf.line))
            sf = sf.outer
        expected_fn = {"unpack_nested_gather": "gather_set", "call_in_genexpr": "boom", "nested_callerror": "boom_callerror", "src_read_shared": "read", "gather_nested_set": "gather_set", "gather_nested_dictkey": "gather_dict", "gather_nested_implicit": "gather_set", "gather_nested_deep": "gather_set",
                       "call": "boom", "call_multiline": "boom_args", "gather_explicit": "gather_set", "gather_implicit": "gather_set", "unpack": "unpack", "reg_write": "write",
                       "reg_readback": "read", "src_read": "read", "src_noreg": "source", "mtime_stored": "ok", "mtime_source": "source", "mtime_unpack_item": "getitem", "call_exit_chain": "boom_exit"}[desc["kind"]]
        if getattr(call.fn, "__name__", None) != expected_fn:
            bad = f"CallError.call is a call to {getattr(call.fn, '__name__', call.fn)!r}, expected the failing {expected_fn!r} call"
        elif not same_frames(got, want):
            bad = f"symbolic traceback starts at {got[:2]} but the call was created at {[w[:3] for w in want[:2]]} (full: got {got} want {[w[:3] for w in want]})"
        elif got_trunc != truncated:
            bad = f"truncation marker {'present' if got_trunc else 'absent'} but the creating stack had {len(chain)} frames (limit {LIMIT + 1})"
        else:
            text = str(exc)
            lines = text.split("\n")
            exp_lines = ["Symbolic traceback (most recent call last):"] + (["  ... truncated"] if truncated else []) + \
                        [f'  File "{w[1]}", line {w[2]}, in {g[0]}' for g, w in reversed(list(zip(got, want)))]
            if lines[1:] != exp_lines:
                bad = f"rendered message lists {lines[1:]} expected {exp_lines}"
            elif not lines[0].startswith("An exception was raised in a symbolic call to "):
                bad = f"unexpected first line {lines[0]!r}"
            elif exc.__cause__ is None or type(exc.__cause__).__name__ not in ("Boom", "TypeError", "ValueError", "NotTransformedError", "CallError", "SystemExit"):
                bad = f"unexpected cause {exc.__cause__!r}"
    depth_total = len(chain)
    rel = "shallower" if depth_total < LIMIT + 1 else ("equal" if depth_total == LIMIT + 1 else "deeper")
    res = {"status": "ok", "counters": {"failures_checked": 1, f"kind_{desc['kind']}": 1, f"chain_{rel}": 1, "helper_cases": int(desc["helper"]), "recursive_helper_cases": int(bool(desc["helper"] and desc.get("recursive"))),
                                        f"modname_{desc.get('modname')}": 1,
                                        "registry_copy_cases": int(bool(desc.get("copy_reg")) and desc["kind"] in ("reg_write", "reg_readback", "src_read", "mtime_stored", "mtime_source"))},
           "sets": {"kinds": [desc["kind"]], "chain_lengths": [str(depth_total)]},
           "nontrivial": desc["kind"] != "call" or depth_total >= LIMIT + 1,
           "sig": f"{desc['kind']}|{desc['depth']}|{desc['helper']}|{desc['bare_thread']}|{desc['W']}|{desc['filler']}"}
    if desc["seed"] % 120 == 0 or bad:
        res["sample"] = {"desc": desc, "source": src.split("\n"), "captured_chain": chain[:7], "got": got}
    if bad:
        res.update(status="violation", detail=f"[{desc['kind']} depth={desc['depth']} helper={desc['helper']}] {bad}", mechanism="attribution",
                   witness={"source": src.split("\n"), "captured_chain": chain[:8], "got": got, "message": str(exc)[:600]})
    return res


def finalize(agg, tier):
    c = agg.counters
    reasons = []
    for k in KINDS:
        if c[f"kind_{k}"] < 10:
            reasons.append(f"kind {k} exercised fewer than 10 times")
    for r in ("chain_shallower", "chain_equal", "chain_deeper"):
        if c[r] < 10:
            reasons.append(f"{r} occurred fewer than 10 times")
    return reasons
