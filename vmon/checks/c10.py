"""C10 - run limits are honoured: max_workers, max_errors and retry."""
import hashlib
import random
import threading

from vmon import abort, env, plainrun, quiesce

ID = "C10"
LEVEL = "exploration"
RULE = (
    "modes: 'wave' = every call blocks at a harness gate; at each *logically quiescent* state (all engine threads parked "
    "in untimed futex waits, context-switch counters unchanged over two samplings) the monitor asserts "
    "gated == min(max_workers, ready calls) and in-flight <= max_workers, then releases a seeded subset; "
    "'errors' = failing sets x max_errors k x W (counts: <= k+W failures; W=1: exactly min(k+1, F); k=None: every call "
    "without failed ancestor ran); 'retry' = flaky calls x retry n or a custom decorator (attempt counts, stop at first "
    "success, dependents run, __cause__ is the last attempt's exception object); 'stale' = registry runs where the number "
    "of concurrent get_modified_time queries is bounded by stale_check_max_workers and store operations count towards "
    "max_workers. non-trivial = wave case that reached a state with >= W ready calls, or errors/retry case with a failing "
    "call that has dependents; distinct by (plan, W, scheduler, mode parameters)"
)
ASSUMPTIONS = [
    "in-flight counters are updated under the harness lock in the same critical section as the event stamp",
    "readiness is computed from the IR and the stamped successful ends",
    "(b) is asserted only at states proved quiescent from kernel thread state; no wall-clock grace periods",
]


def gen_cases(tier, seed):
    n = 1200 if tier == "quick" else 30000
    out = []
    for i in range(n):
        s = env.seed_for(seed, ID, tier, i)
        r = random.Random(env.seed_for(s, "descriptor"))  # independent of the stream run_case derives from the same seed
        mode = r.choice(["wave", "wave", "errors", "errors", "retry", "stale"])
        ncalls = r.randint(2, 30 if tier == "quick" else 70)
        W = plainrun.pick_W(r, ncalls)
        d = {"seed": s, "n": ncalls, "W": W, "sched": r.choice(["default", "random"]), "mode": mode,
             "cfg": {"out": r.choice(["all", "sinks", "all", "struct"])}}
        if mode == "wave":
            d["family"] = r.choice(["layers", "crisscross", "join", "random", "diamond", "tree", "disconnected"])
            d["delays"] = "none"
            d["policy"] = r.choice(["mixed", "all", "one", "subset", "newest"])
        elif mode == "errors":
            d["faults"] = {"p": r.choice([0.1, 0.3, 0.6, 1.0]), "kinds": ["exc", "value", "base", "kbi", "sysexit", "callerr"]}
            d["max_errors"] = r.choice([None, 0, 1, 2, 5])
            d["perturb"] = r.choice(["instr", "none"]) if W > 1 else "none"
        elif mode == "retry":
            d["retry"] = r.choice([1, 2, 3, 5, 6, 8, "custom2", "custom4"])
            d["faults"] = {"p": r.choice([0.2, 0.5]), "kinds": r.choice([["exc", "value"], ["exc", "value", "callerr"], ["callerr"]]), "flaky": True, "max_flaky": r.choice([1, 2, 3, 6, 9])}
            d["max_errors"] = r.choice([None, 0])
            d["perturb"] = r.choice(["instr", "none"]) if W > 1 else "none"
        elif mode == "stale":
            d["sW"] = r.choice([None, 1, 2, 3, 8])
        out.append(d)
    for i in range(max(6, n // 100)):
        # more than 32 workers asked for explicitly (32 is the cap of the DEFAULT worker count only) and more than that many calls ready
        s = env.seed_for(seed, ID, tier, "wide", i)
        r = random.Random(env.seed_for(s, "descriptor"))
        W = r.choice([33, 36, 40, 48])
        out.append({"seed": s, "n": W + r.randint(2, 12), "W": W, "sched": r.choice(["default", "random"]), "mode": "wave", "wide": True, "delays": "none",
                    "policy": r.choice(["all", "one", "subset"]), "cfg": {"out": "all"}})
    for i in range(max(12, n // 60)):
        # the operating system refuses the i-th worker thread (i >= 2): run may fail, but it must not carry on with fewer workers than asked for
        s = env.seed_for(seed, ID, tier, "refused", i)
        r = random.Random(env.seed_for(s, "descriptor"))
        W = r.choice([2, 3, 4, 8])
        out.append({"seed": s, "n": r.randint(W + 2, 20), "W": W, "sched": r.choice(["default", "random"]), "mode": "wave", "family": r.choice(["layers", "crisscross", "disconnected"]),
                    "delays": "none", "policy": "all", "cfg": {"out": "all"}, "refuse_start": r.randint(2, W)})
    for i in range(max(16, n // 40)):
        s = env.seed_for(seed, ID, tier, "retry_callables", i)
        r = random.Random(env.seed_for(s, "descriptor"))
        out.append({"seed": s, "mode": "retry_callables", "n": r.randint(2, 6), "W": r.choice([1, 2, 4]), "sched": r.choice(["default", "random"]), "attempts": r.choice([2, 3, 4, 7])})
    for i in range(max(20, n // 25)):
        s = env.seed_for(seed, ID, tier, "retry_shared", i)
        r = random.Random(env.seed_for(s, "descriptor"))
        out.append({"seed": s, "mode": "retry_shared", "n": r.randint(2, 7), "W": r.choice([1, 2, 4]), "sched": r.choice(["default", "random"]), "attempts": r.choice([2, 3, 4, 7])})
    for i in range(max(16, n // 60)):
        s = env.seed_for(seed, ID, tier, "retry_unpack", i)
        r = random.Random(env.seed_for(s, "descriptor"))
        out.append({"seed": s, "mode": "retry_unpack", "n": 4, "W": r.choice([1, 2, 4]), "sched": r.choice(["default", "random"]), "attempts": r.choice([2, 3, 4, 7])})
    # "at most k + max_workers calls fail" for every preemption of the worker whose failure crosses the limit (vmon/preempt.py): it is held at
    # every instruction of its failure bookkeeping while a dozen more failing calls are ready
    combos = [(me, W, sc) for me in (0, 1, 2, 5) for W in (2, 3, 4) for sc in ("default", "random")]
    if tier == "quick":
        combos = [c_ for j, c_ in enumerate(combos) if j % 4 == seed % 4]
    for j, (me, W, sc) in enumerate(combos):
        out.append({"seed": env.seed_for(seed, ID, tier, "errlimit", me, W, sc), "mode": "preempt_errlimit", "max_errors": me, "W": W, "sched": sc, "n": 12, "ncalls": 12,
                    "shape": "inflight" if (j + seed) % 2 else "independent"})
    # "attempted at most n times" with the default n = 1 under single-preemption enumeration: the worker of one predecessor of a join is held at every instruction
    # of its bookkeeping while the other predecessors complete theirs - a join handed to the queue twice would be EXECUTED twice
    from vmon import preempt

    for d in preempt.gen_descs(tier, seed, ID):
        if d["shape"] in ("join2", "join3", "hub", "join_then", "mixed"):
            out.append(d)
    return out


def run_retry_unpack(desc):
    """`plan.unpack` of a re-iterable whose iteration fails transiently (a cursor that has to reconnect): the unpack call is a call like any
    other - with retry=n it is attempted until it succeeds, at most n times, and an eventual success counts for its dependents."""
    import uberjob

    rng = random.Random(desc["seed"])
    n_att = desc["attempts"]
    j = rng.randint(0, n_att + 1)  # iteration fails its first j times
    iters = []

    class Flaky:
        def __iter__(self):
            iters.append(1)
            if len(iters) <= j:
                raise ConnectionError(f"iteration attempt {len(iters)} failed")
            return iter((1, 2, 3))

    plan = uberjob.Plan()
    src = plan.call(Flaky)
    a, b, c = plan.unpack(src, 3)
    out = plan.call(lambda x, y, z: x + y + z, a, b, c)
    exc = got = None
    try:
        got = uberjob.run(plan, output=out, retry=n_att, max_workers=desc["W"], scheduler=desc["sched"], progress=None)
    except BaseException as e:
        exc = e
    bad = None
    if j < n_att:
        if exc is not None:
            bad = f"iterating the unpacked value fails its first {j} time(s) and retry={n_att}: run raised {exc!r} (cause {exc.__cause__!r}) after {len(iters)} attempt(s)"
        elif got != 6 or len(iters) != j + 1:
            bad = f"unpack with {j} transient failures, retry={n_att}: result {got!r} after {len(iters)} iteration attempts (expected 6 after {j + 1})"
    else:
        if exc is None:
            bad = f"iteration fails {j} times, retry={n_att} exhausted, yet run returned {got!r}"
        elif len(iters) != n_att:
            bad = f"iteration fails {j} times, retry={n_att}: attempted {len(iters)} times (exactly {n_att} expected)"
    r_ = {"status": "ok", "counters": {"retry_unpack_runs": 1}, "nontrivial": j > 0, "sig": f"retry_unpack|{n_att}|{j}|{desc['W']}"}
    if bad:
        r_.update(status="violation", mechanism="limits-retry", detail=f"[flaky iteration behind plan.unpack] {bad}")
    return r_


def run_retry_callables(desc):
    """retry=n (the built-in retry) with call targets that are not plain functions: functools.partial objects, instances with __call__,
    operator helpers, bound methods, classes - flaky ones that succeed on a later attempt. Every call gets up to n attempts, stops at its
    first success, and an eventual success counts for its dependents."""
    import collections
    import functools
    import operator

    import uberjob

    rng = random.Random(desc["seed"])
    n_att = desc["attempts"]
    m = desc["n"]
    flaky = {t: rng.randint(0, n_att - 1) for t in range(m)}
    attempts = collections.Counter()

    def body(tag, *deps):
        attempts[tag] += 1
        if attempts[tag] <= flaky[tag]:
            raise ValueError(f"transient failure of call {tag}, attempt {attempts[tag]}")
        return tag

    class CallObj:
        def __init__(self, tag):
            self.tag = tag

        def __call__(self, *deps):
            return body(self.tag, *deps)

    class Holder:
        def __init__(self, tag):
            self.tag = tag

        def method(self, *deps):
            return body(self.tag, *deps)

    plan = uberjob.Plan()
    nodes = []
    kinds = []
    for t in range(m):
        deps = rng.sample(nodes, min(len(nodes), rng.choice([0, 1, 2])))
        kind = rng.choice(["partial", "callobj", "method", "partial", "shared_fn", "shared_fn", "wrapped", "wrapped", "wrapped_partial"])
        kinds.append(kind)
        if kind in ("wrapped", "wrapped_partial"):
            # the everyday decorated function: a functools.wraps wrapper (logging, timing, tracing decorators) - it carries __wrapped__
            def make(tag):
                def inner(*deps):
                    return body(tag, *deps)

                if kind == "wrapped_partial":
                    w_ = functools.partial(inner)
                    functools.update_wrapper(w_, inner)
                    return w_

                @functools.wraps(inner)
                def traced(*deps):
                    return inner(*deps)

                return traced

            nodes.append(plan.call(make(t), *deps))
            continue
        if kind == "shared_fn":
            nodes.append(plan.call(body, t, *deps))  # several calls share ONE plain function object (tag passed as an argument)
            continue
        fn = functools.partial(body, t) if kind == "partial" else (CallObj(t) if kind == "callobj" else Holder(t).method)
        nodes.append(plan.call(fn, *deps))
    exc = res = None
    try:
        res = uberjob.run(plan, output=nodes, retry=n_att, max_workers=desc["W"], scheduler=desc["sched"], progress=None)
    except BaseException as e:
        exc = e
    bad = None
    if exc is not None:
        bad = (f"every call succeeds within its {n_att} attempts (fails first {dict(flaky)}; callables {kinds}), yet run raised {exc!r} (cause {exc.__cause__!r}); "
               f"attempts made {dict(attempts)}")
    else:
        for t in range(m):
            if attempts[t] != flaky[t] + 1:
                bad = f"call {t} ({kinds[t]}) was attempted {attempts[t]} times, expected {flaky[t] + 1}"
                break
        if bad is None and res != list(range(m)):
            bad = f"run returned {res!r}"
    r_ = {"status": "ok", "counters": {"retry_callable_runs": 1}, "nontrivial": any(flaky.values()), "sig": f"retry_callables|{m}|{n_att}|{kinds}|{sorted(flaky.items())}"}
    if bad:
        r_.update(status="violation", detail=f"[retry={n_att} with partial / __call__ / bound-method / functools.wraps-decorated targets] {bad}", mechanism="limits-retry", witness={"flaky": flaky, "kinds": kinds})
    return r_


def run_retry_shared(desc):
    """Several symbolic calls share ONE Python function; the retry decorator keeps its attempt budget in the wrapper it returns (per-wrapper
    state, as e.g. a decorator with a local counter does). `retry` is documented as applied to each call: every call must get its own
    n attempts, stop at its first success, and an eventual success must count for its dependents."""
    import collections

    import uberjob

    rng = random.Random(desc["seed"])
    n_att = desc["attempts"]
    m = desc["n"]
    flaky = {t: rng.randint(0, n_att - 1) for t in range(m)}  # fails its first j attempts, j < n: every call eventually succeeds
    attempts = collections.Counter()
    wraps = []

    def shared(tag, *deps):
        attempts[tag] += 1
        if attempts[tag] <= flaky[tag]:
            raise ValueError(f"transient failure of call {tag}, attempt {attempts[tag]}")
        return tag

    def stateful_retry(f):
        state = {"left": n_att}
        wraps.append(f)

        def wrapper(*a, **k):
            while True:
                state["left"] -= 1
                try:
                    return f(*a, **k)
                except Exception:
                    if state["left"] <= 0:
                        raise

        return wrapper

    plan = uberjob.Plan()
    nodes = []
    for t in range(m):
        deps = rng.sample(nodes, min(len(nodes), rng.choice([0, 1, 1, 2])))
        nodes.append(plan.call(shared, t, *deps))
    exc = res = None
    try:
        res = uberjob.run(plan, output=nodes, retry=stateful_retry, max_workers=desc["W"], scheduler=desc["sched"], progress=None)
    except BaseException as e:
        exc = e
    bad = None
    if exc is not None:
        bad = (f"every call succeeds within its {n_att} attempts (fails first {dict(flaky)}), yet run raised {exc!r} (cause {exc.__cause__!r}); "
               f"attempts made {dict(attempts)}; the retry decorator was applied {len(wraps)} time(s) for {m} calls")
    else:
        for t in range(m):
            if attempts[t] != flaky[t] + 1:
                bad = f"call {t} was attempted {attempts[t]} times, expected {flaky[t] + 1} (stop at the first success, at most {n_att})"
                break
        if bad is None and res != list(range(m)):
            bad = f"run returned {res!r}"
    r_ = {"status": "ok", "counters": {"retry_shared_runs": 1, "custom_retry_wraps": len(wraps)}, "nontrivial": any(flaky.values()),
          "sig": f"retry_shared|{m}|{n_att}|{sorted(flaky.items())}|{desc['W']}"}
    if bad:
        r_.update(status="violation", detail=f"[one function shared by {m} calls, retry decorator with per-wrapper state] {bad}", mechanism="limits-retry", witness={"flaky": flaky})
    return r_


def custom_retry(n, log):
    def deco(f):
        log.append(f)

        def wrapper(*a, **k):
            last = None
            for _ in range(n):
                try:
                    return f(*a, **k)
                except Exception as e:  # noqa
                    last = e
            raise last

        return wrapper

    return deco


def run_case(desc):
    mode = desc["mode"]
    if mode == "preempt_errlimit":
        from vmon import preempt

        return preempt.enumerate_fail_limit(desc)
    if mode == "preempt1":
        from vmon import preempt

        def at_most_once(R, ir):
            over = {c: k for c, k in R.H.attempts.items() if k > 1}
            if over:
                return f"no retry was asked for, yet call(s) were executed more than once: {dict(sorted(over.items())[:4])}"
            return None

        return preempt.enumerate_case(desc, at_most_once)
    if mode == "retry_unpack":
        return run_retry_unpack(desc)
    if mode == "retry_shared":
        return run_retry_shared(desc)
    if mode == "retry_callables":
        return run_retry_callables(desc)
    if mode == "wave":
        return run_wave(desc)
    if mode == "stale":
        from vmon.checks import c10_stale

        return c10_stale.run_case(desc)
    return run_counts(desc)


def _sig(ir, desc, extra=""):
    return hashlib.sha1(("\n".join(ir.describe(200)) + f"|{desc['W']}|{desc['sched']}|{desc['mode']}|{extra}").encode()).hexdigest()[:16]


def run_wave(desc):
    if not quiesce.available():
        return {"status": "inconclusive", "detail": "/proc/self/task/*/syscall unreadable: quiescence detector unavailable"}
    state = {"bad": None, "states_ge_W": 0, "asserts": 0}
    holder = {}
    rng = random.Random(desc["seed"] ^ 0xA11)

    def on_quiescent(drv, keys):
        R = holder.get("R")
        if R is None:
            return
        H, ir = R.H, R.ir
        W = desc["W"]
        with H.lock:
            ended = set(H.ended_ok)
            started = set(H.attempts)
            infl = H.in_flight
        ready = [c for c in holder["needed"] if c not in ended and holder["anc"][c] <= ended]
        state["asserts"] += 1
        if len(ready) >= W:
            state["states_ge_W"] += 1
        want = min(W, len(ready))
        if state["bad"] is None:
            if infl > W:
                state["bad"] = f"{infl} calls in flight with max_workers={W}"
            elif len(keys) != want or not set(keys) <= set(ready):
                msg = (f"quiescent state: {len(keys)} call(s) executing (gated {sorted(keys)[:8]}) but {len(ready)} independent "
                       f"calls are ready ({sorted(ready)[:8]}) with max_workers={W}: expected {want} running in parallel")
                if desc.get("refuse_start"):
                    # a worker could not be started: if run gives up (raises) this state is part of its tear-down and proves nothing;
                    # it counts only if run carries on and finally returns as if nothing had happened (decided after the run)
                    state.setdefault("deferred", msg)
                else:
                    state["bad"] = msg
            if state["bad"]:
                state["stacks"] = drv.stacks()

    def on_deadlock(stacks):
        abort.abort_with({"status": "inconclusive", "detail": "C10 wave driver saw a logical deadlock (C07 territory)", "witness": {"stacks": stacks}})

    drv = quiesce.WaveDriver(rng, policy=desc.get("policy", "mixed"), on_quiescent=on_quiescent, on_deadlock=on_deadlock)

    def pre(nid, att):
        drv.gate(nid)

    from vmon import ir as irmod

    if desc.get("wide"):
        irr = irmod.IR()
        first = [irr.add("call", fname=f"fn{i % 3}") for i in range(desc["n"])]
        joins = [irr.add("call", fname="join", args=[irmod.ref(c.id) for c in first[j::4][:10]]) for j in range(4)]
        irr.output = irmod.X("list", [irmod.ref(c.id) for c in first + joins])
        irr.meta["family"] = "wide"
    else:
        irr = irmod.gen_ir(random.Random(desc["seed"]), desc["n"], family=desc.get("family"), rich=True, cfg=desc.get("cfg"))
    calls = set(irr.harness_calls())
    preds = irr.preds()
    needed = irr.needed() & calls
    holder["needed"] = needed
    holder["anc"] = {c: (irr.ancestors([c], preds) - {c}) & calls for c in needed}

    drv.start()
    R = None
    real_start = threading.Thread.start
    if desc.get("refuse_start"):
        nstart = [0]
        main_id = threading.get_ident()

        def start(self_):
            if threading.get_ident() == main_id and self_ is not drv.thread:
                nstart[0] += 1
                if nstart[0] == desc["refuse_start"]:
                    raise RuntimeError("can't start new thread")
            return real_start(self_)

        threading.Thread.start = start
    try:
        R = plainrun.execute(desc, pre=lambda nid, att: drv.gate(nid), record_args=False, ir=irr, hang_watch=False,
                             before_run=lambda R_: holder.__setitem__("R", R_))
    finally:
        threading.Thread.start = real_start
        drv.run_done = True
        drv.stop()
    if desc.get("refuse_start") and R is not None and R.exc is None and state["bad"] is None and state.get("deferred"):
        state["bad"] = (f"the start of worker #{desc['refuse_start']} was refused by the operating system, run carried on with fewer workers and returned normally: "
                        + state["deferred"])
    if desc.get("refuse_start") and R is not None and R.exc is not None and state["bad"] is None:
        # run gave up because it could not get its workers: no claim about parallelism is at stake
        return {"status": "ok", "counters": {"wave_runs": 1, "refused_start_runs": 1, "refused_start_run_raised": 1}, "nontrivial": True, "sig": _sig(irr, desc, "refused")}
    counters = {"wave_runs": 1, "quiescent_states_inspected": drv.quiescent_states, "quiescent_asserts": state["asserts"],
                "states_with_ge_W_ready": state["states_ge_W"], "waves": len(drv.waves), "max_in_flight_seen": R.H.max_in_flight}
    res = {"status": "ok", "counters": counters, "nontrivial": state["states_ge_W"] > 0, "sig": _sig(irr, desc, desc.get("policy"))}
    if desc["seed"] % 200 == 0:
        res["sample"] = {"desc": desc, "plan": irr.describe(15), "waves": drv.waves[:12]}
    if drv.error:
        return {"status": "inconclusive", "detail": "wave driver error " + drv.error}
    bad = state["bad"]
    if bad is None and R.H.max_in_flight > desc["W"]:
        bad = f"max in-flight {R.H.max_in_flight} > max_workers {desc['W']}"
    if bad:
        res.update(status="violation", detail=bad, mechanism="parallelism",
                   witness={"plan": irr.describe(200), "waves": drv.waves[:60], "stacks": state.get("stacks"), "history": R.H.compact_history(600)})
    elif R.exc is not None:
        res.update(status="inconclusive", detail=f"run raised {R.exc!r}")
    return res


def run_counts(desc):
    mode = desc["mode"]
    W = desc["W"]
    log = []
    d = dict(desc)
    n_allowed = 1
    if mode == "retry":
        r = desc["retry"]
        if isinstance(r, str):
            n_allowed = int(r[6:])
            d["retry"] = custom_retry(n_allowed, log)
        else:
            n_allowed = r
    R = plainrun.execute(d, record_args=False)
    ir, H = R.ir, R.H
    calls = set(ir.harness_calls())
    preds = ir.preds()
    needed = ir.needed() & calls
    fail = R.fail
    # a call "finally fails" when it fails on every allowed attempt
    final_fail = {c for c, (kind, j) in fail.items() if j >= n_allowed or (kind in ("base", "kbi", "sysexit") )}
    anc = {c: (ir.ancestors([c], preds) - {c}) & calls for c in needed}
    eligible = {c for c in needed if not (anc[c] & final_fail)}  # none of whose dependencies failed
    F = len(eligible & final_fail)
    failed = {nid for nid in H.raised if nid not in H.ended_ok}
    k = desc.get("max_errors", 0)
    bad = None
    if H.max_in_flight > W:
        bad = f"{H.max_in_flight} calls executed concurrently with max_workers={W}"
    if bad is None and failed - final_fail:
        bad = f"calls {sorted(failed - final_fail)[:5]} failed although they succeed within the allowed attempts"
    if bad is None and k is not None and len(failed) > k + W:
        bad = f"{len(failed)} calls failed with max_errors={k}, max_workers={W} (limit {k + W})"
    if bad is None and W == 1 and k is not None and len(failed) != min(k + 1, F):
        bad = f"single worker, max_errors={k}: {len(failed)} calls failed, expected min(k+1, {F}) = {min(k + 1, F)}"
    if bad is None and k is None:
        missing = eligible - set(H.attempts)
        if missing:
            bad = f"max_errors=None but eligible calls {sorted(missing)[:6]} (no failed ancestor) were not executed"
        elif failed != eligible & final_fail:
            bad = f"max_errors=None: failed set {sorted(failed)[:6]} differs from expected {sorted(eligible & final_fail)[:6]}"
    # retry clauses
    if bad is None:
        for nid, c in H.attempts.items():
            f = fail.get(nid)
            if f is None:
                exp = 1
            elif f[0] in ("base", "kbi", "sysexit"):
                exp = 1
            else:
                exp = min(n_allowed, f[1] + 1)
            if c > n_allowed:
                bad = f"call n{nid} attempted {c} times with retry={desc.get('retry')}"
            elif c != exp:
                bad = f"call n{nid} attempted {c} times, expected {exp} (fails first {f[1] if f else 0} attempts, {n_allowed} allowed)"
            if bad:
                break
    if bad is None and not (eligible & final_fail):
        if R.exc is not None:
            bad = f"every flaky call eventually succeeds but run raised {R.exc!r}"
        elif set(H.attempts) != needed:
            bad = f"eventual success did not count as success for dependents: not executed {sorted(needed - set(H.attempts))[:6]}"
    if bad is None and R.exc is not None:
        import uberjob

        if isinstance(R.exc, uberjob.CallError):
            nid = getattr(R.exc.call.fn, "_nid", None)
            if nid is not None and nid in H.raised and R.exc.__cause__ is not H.raised[nid][-1]:
                bad = f"CallError.__cause__ is not the exception object raised by the last attempt of n{nid}"
    counters = {"count_runs": 1, "failed_calls_observed": len(failed), "attempt_counters_checked": len(H.attempts),
                "runs_w1_exact_checked": int(W == 1 and k is not None), "runs_none_checked": int(k is None),
                "custom_retry_wraps": len(log)}
    sets = {}
    plainrun.perturb_stats(R, counters, sets)
    succ = ir.succs()
    res = {"status": "ok", "counters": counters, "sets": sets,
           "nontrivial": any(succ[c] for c in failed) or (mode == "retry" and any(H.attempts.get(c, 0) > 1 for c in H.attempts)),
           "sig": _sig(ir, desc, f"{k}|{desc.get('retry')}|{sorted(fail)}")}
    if desc["seed"] % 250 == 0 or bad:
        res["sample"] = {"desc": desc, "plan": ir.describe(12), "fail": {str(c): list(v) for c, v in list(fail.items())[:10]},
                         "attempts": dict(list(H.attempts.items())[:20]), "failed": sorted(failed)[:20]}
    if bad:
        res.update(status="violation", detail=bad, mechanism="limits-" + mode,
                   witness={"plan": ir.describe(200), "history": H.compact_history(1500), "fail": {str(c): list(v) for c, v in fail.items()}})
    return res


def finalize(agg, tier):
    c = agg.counters
    reasons = []
    if c["states_with_ge_W_ready"] < 50:
        reasons.append(f"only {c['states_with_ge_W_ready']} quiescent states with >= max_workers ready calls were reached")
    if c["quiescent_asserts"] < 200:
        reasons.append("fewer than 200 quiescent-state assertions evaluated")
    if c["preempt_errlimit_holds_others_went_on"] < 50:
        reasons.append("error-limit preemption: fewer than 50 holds of the limit-crossing worker during which other calls went on failing")
    if c["runs_w1_exact_checked"] < 10 or c["runs_none_checked"] < 10:
        reasons.append("too few max_errors cases")
    return reasons
