import argparse
import os
import sys

sys.dont_write_bytecode = True
HERE = os.path.dirname(os.path.dirname(os.path.abspath(__file__)))
sys.path.insert(0, HERE)


def main():
    ap = argparse.ArgumentParser()
    ap.add_argument("check_id")
    ap.add_argument("--tier", default=os.environ.get("VERIF_TIER", "quick"), choices=["quick", "thorough"])
    ap.add_argument("--replay")
    ap.add_argument("--limit", type=int)
    a = ap.parse_args()
    from vmon import env, runner

    env.setup_paths()
    ok, where = env.origin_ok()
    if not ok:
        print(f"INCONCLUSIVE property={a.check_id} uberjob resolves to {where}, not {env.SRC}")
        return 2
    return runner.run_check(a.check_id.upper(), a.tier, env.base_seed(), replay=a.replay, limit=a.limit)


if __name__ == "__main__":
    sys.exit(main())
