"""Identity-level structural snapshots of a Plan and a Registry (DESIGN 2.3)."""


def edge_key(k):
    t = type(k).__name__
    return (t, getattr(k, "index", None), getattr(k, "name", None))


def plan_snapshot(plan):
    g = plan.graph
    nodes = []
    for n in g.nodes():
        nodes.append((id(n), type(n).__name__, getattr(n, "scope", "<none>"), id(getattr(n, "fn", None)), id(getattr(n, "value", None)),
                      id(getattr(n, "stack_frame", None)), tuple(sorted((str(k), id(v)) for k, v in g.nodes[n].items()))))
    edges = []
    for u, v, k, d in g.edges(keys=True, data=True):
        edges.append((id(u), id(v), edge_key(k), id(k), tuple(sorted((str(a), id(b)) for a, b in d.items()))))
    edges.sort()
    return {"nodes": nodes, "edges": edges, "scope": plan._scope, "graph_id": id(g), "graph_attrs": tuple(sorted(g.graph.items()))}


def registry_snapshot(reg):
    if reg is None:
        return None
    out = []
    for n, rv in reg.mapping.items():
        out.append((id(n), id(rv), id(rv.value_store), rv.is_source, id(rv.stack_frame)))
    return out


def diff(a, b):
    if a == b:
        return None
    if isinstance(a, dict):
        for k in a:
            if a[k] != b.get(k):
                x, y = a[k], b.get(k)
                if isinstance(x, list) and isinstance(y, list):
                    return f"{k}: {len(x)} -> {len(y)} entries; first difference at index {next((i for i, (p, q) in enumerate(zip(x, y)) if p != q), min(len(x), len(y)))}"
                return f"{k}: {x!r} -> {y!r}"
    if isinstance(a, list) and isinstance(b, list):
        return f"{len(a)} -> {len(b)} registry entries; first difference at index {next((i for i, (p, q) in enumerate(zip(a, b)) if p != q), min(len(a), len(b)))}"
    return "snapshots differ"
