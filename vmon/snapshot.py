"""Identity-level structural snapshots of a Plan and a Registry (DESIGN 2.3)."""


def edge_key(k):
    t = type(k).__name__
    return (t, getattr(k, "index", None), getattr(k, "name", None))


def _fp(v, depth=0):
    """Fingerprint of an attribute value: values for plain data, identities + contents for containers, identity for other objects."""
    if isinstance(v, (int, float, str, bool, bytes, type(None))):
        return ("val", repr(v))
    if isinstance(v, tuple) and depth < 2:
        return ("tuple",) + tuple(_fp(x, depth + 1) for x in v)
    if isinstance(v, (set, frozenset)):
        return ("set", id(v), tuple(sorted(repr(_fp(x, 2)) for x in v)))
    if isinstance(v, dict):
        return ("dict", id(v), tuple(sorted((repr(_fp(k, 2)), id(x)) for k, x in v.items())))
    if isinstance(v, list):
        return ("list", id(v), tuple(id(x) if not isinstance(x, (int, str, float, bool, type(None))) else repr(x) for x in v))
    return ("obj", type(v).__name__, id(v))


def other_state(obj, known):
    """Every attribute of obj (instance dict and slots) that the structural snapshot does not already cover - whatever state a future version
    adds to Plan / Registry, a run may not change it in the caller's object and copies may not share it mutably."""
    names = set(getattr(obj, "__dict__", {}) or {})
    for c in type(obj).__mro__:
        s = c.__dict__.get("__slots__", ())
        names.update([s] if isinstance(s, str) else s)
    out = []
    for nme in sorted(names - set(known) - {"__dict__", "__weakref__"}):
        try:
            out.append((nme, _fp(getattr(obj, nme))))
        except AttributeError:
            out.append((nme, ("unset",)))
    return tuple(out)


def plan_snapshot(plan):
    g = plan.graph
    nodes = []
    for n in g.nodes():
        nodes.append((id(n), type(n).__name__, getattr(n, "scope", "<none>"), id(getattr(n, "fn", None)), id(getattr(n, "value", None)),
                      id(getattr(n, "stack_frame", None)), tuple(sorted((str(k), id(v)) for k, v in g.nodes[n].items())),
                      other_state(n, ("scope", "fn", "value", "stack_frame"))))
    edges = []
    for u, v, k, d in g.edges(keys=True, data=True):
        edges.append((id(u), id(v), edge_key(k), id(k), tuple(sorted((str(a), id(b)) for a, b in d.items()))))
    edges.sort()
    return {"nodes": nodes, "edges": edges, "scope": plan._scope, "graph_id": id(g), "graph_attrs": tuple(sorted(g.graph.items())),
            "other_attributes": other_state(plan, ("graph", "_scope"))}


def registry_snapshot(reg):
    if reg is None:
        return None
    out = []
    for n, rv in reg.mapping.items():
        out.append((id(n), id(rv), id(rv.value_store), rv.is_source, id(rv.stack_frame)) + (other_state(rv, ("value_store", "is_source", "stack_frame")),))
    out.append(("<other attributes of the Registry>", other_state(reg, ("mapping",)), 0, None, 0, ()))
    return out


def diff(a, b):
    if a == b:
        return None
    if isinstance(a, dict):
        for k in a:
            if a[k] != b.get(k):
                x, y = a[k], b.get(k)
                if isinstance(x, list) and isinstance(y, list):
                    return f"{k}: {len(x)} -> {len(y)} entries; first difference at index {next((i for i, (p, q) in enumerate(zip(x, y)) if p != q), min(len(x), len(y)))}"
                return f"{k}: {x!r} -> {y!r}"
    if isinstance(a, list) and isinstance(b, list):
        return f"{len(a)} -> {len(b)} registry entries; first difference at index {next((i for i, (p, q) in enumerate(zip(a, b)) if p != q), min(len(a), len(b)))}"
    return "snapshots differ"
