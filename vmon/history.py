"""History driver over a registry Session: seeded sequences of runs, faulted runs, source updates,
deletions and fresh_time advances, with the C03 / C05 / C09 oracles evaluated after every step."""
import collections
import random

from . import ir as irmod
from . import regmodel, vstore
from .rec import InjectedBase, InjectedError


class Fault:
    """Event-indexed fault: the k-th boundary event (call start, store read, write before/after effect,
    modified-time query) raises."""

    def __init__(self, H, k=None, kind="exc", only=None, transient=None, sticky=False):
        self.H = H
        self.k = k
        self.kind = kind
        self.count = 0
        self.fired = None
        self.only = only  # restrict to a boundary kind
        self.log = []
        self.transient = transient  # an earlier boundary event that fails ONCE (what run(retry=n) absorbs)
        self.transient_fired = None
        self.sticky = sticky  # the operation that fails at event k fails at every later attempt as well (so that retry cannot absorb the cut)

    def boundary(self, bkind, key):
        H = self.H
        with H.lock:
            if self.only is not None and bkind not in self.only:
                return
            self.count += 1
            c = self.count
            if len(self.log) < 5000:
                self.log.append((bkind, key))
            fire = self.k is not None and c == self.k and self.fired is None
            tfire = False
            if fire:
                self.fired = (bkind, key)
            elif self.sticky and self.fired == (bkind, key):
                fire = True
            elif self.transient is not None and c == self.transient and self.transient_fired is None and self.fired is None:
                self.transient_fired = (bkind, key)
                tfire = True
        if tfire:
            raise InjectedError(f"transient failure at boundary event {c}: {bkind} {key}")
        if fire:
            if self.kind == "base":
                raise InjectedBase(f"cut at boundary event {c}: {bkind} {key}")
            raise InjectedError(f"cut at boundary event {c}: {bkind} {key}")

    def install(self):
        H = self.H
        H.pre = lambda nid, att: self.boundary("call", nid)
        H.store_hook = lambda kind, st: self.boundary(kind, st.name)

    def uninstall(self):
        self.H.pre = None
        self.H.store_hook = None


def choose_out(rng, S, mode=None):
    ids = [n.id for n in S.ir.nodes if S.rp.role[n.id] != "producer" and n.id not in S.rp.chain_lits]
    mode = mode or rng.choice(["none", "none", "one", "some", "all", "sinks", "bare", "bare"])
    if mode == "none" or not ids:
        return None
    if mode == "bare":
        return regmodel.Bare(rng.choice(ids))  # output=<the node itself>, not a list
    if mode == "one":
        return [rng.choice(ids)]
    if mode == "all":
        return ids
    if mode == "sinks":
        s = [i for i in ids if not S.succs[i]]
        return s or [ids[-1]]
    return rng.sample(ids, rng.randint(1, min(5, len(ids))))


def choose_fresh(rng, S):
    """fresh_time as a tick: None, a tick that exists, a half tick, or 'now' (never in the future)."""
    now = S.clock.now()
    r = rng.random()
    if r < 0.45 or now == 0:
        return None
    if r < 0.6:
        return now
    if r < 0.8:
        return rng.randint(0, now)
    return rng.randint(0, now - 1) + 0.5


def c09_check_failed_run(S, exp):
    """The ordering clauses of C09 on a run that FAILED but was allowed to go on (max_errors): whatever started in it started only after
    the rebuilt values it consumes were written and read back / after the write of those it merely depends on. A value whose write never
    completed releases nothing."""
    H, ir, rp = S.H, S.ir, S.rp
    first, last = {}, {}
    for s, k, key, tid, x in H.events:
        first.setdefault((k, key), s)
        last[(k, key)] = s
    for n in exp.writes:
        if rp.role[n] != "stored":
            continue
        nm = S.store_name[n]
        w_end = last.get(("wr_end", nm))
        for m in S.succs[n]:
            if ir.nodes[m].kind != "call":
                continue
            st = first.get(("start", m))
            if st is None:
                continue
            if w_end is None:
                return f"n{m} started (seq {st}) although the rebuilt value of n{n}, which it depends on, was never written in this (failed) run"
            if m in S.argsucc[n]:
                if not any(w_end < s0 and s1 < st for _, s0, s1 in S.stores[n].reads_returned):
                    return f"consumer n{m} started (seq {st}) before the rebuilt value of n{n} was written (write end seq {w_end}) and read back"
            elif st < w_end:
                return f"plain dependent n{m} started (seq {st}) before the rebuilt value of n{n} was written (seq {w_end})"
        r_start = first.get(("rd", nm))
        if r_start is not None and (w_end is None or r_start < w_end):
            return f"store s{n} was read (seq {r_start}) although/before its rebuilt value was written (write end seq {w_end}) in this (failed) run"
    return None


def c09_check(S, exp, out_ids, result):
    """Write, then read back, before downstream use; consumers receive the store's read value (identity)."""
    H, ir, rp = S.H, S.ir, S.rp
    first = {}
    last = {}
    for s, k, key, tid, x in H.events:
        first.setdefault((k, key), s)
        last[(k, key)] = s
    idchecks = 0
    normchecks = 0
    for n in exp.writes:  # rebuilt stored values
        nm = S.store_name[n]
        w_end = last.get(("wr_end", nm))
        w_eff = last.get(("wr_effect", nm))
        if w_end is None:
            return f"rebuilt n{n} has no completed write", 0, 0
        if n in exp.reads:
            r_start = first.get(("rd", nm))
            if r_start is None or r_start < w_end:
                return f"store s{n} was read (seq {r_start}) before its rebuilt value was written (write end seq {w_end})", 0, 0
        for m in S.succs[n]:
            if m not in exp.execs:
                continue
            st = first.get(("start", m))
            if st is None:
                continue
            if m in S.argsucc[n]:
                # some read of that store must lie completely between the end of the write and the consumer's start
                # (a store shared with an alias source is read once per registered node that is consumed)
                ok = any(w_end < s0 and s1 < st for _, s0, s1 in S.stores[n].reads_returned)
                if not ok:
                    return (f"consumer n{m} started (seq {st}) before the rebuilt value of n{n} was written (write end seq {w_end}) and read back "
                            f"(reads of the store: {[(a, b) for _, a, b in S.stores[n].reads_returned]})"), 0, 0
            elif st < w_end:
                return f"plain dependent n{m} started (seq {st}) before the rebuilt value of n{n} was written (seq {w_end})", 0, 0
        for m in S.lit_successor_calls(n):
            st = first.get(("start", m))
            if m in exp.execs and st is not None and st < w_end:
                return f"n{m}, which depends on rebuilt n{n} through a literal, started (seq {st}) before the rebuilt value was written (seq {w_end})", 0, 0
        # every stored value downstream is rebuilt in the same run and after it
        for m in S.reg:
            if n in S.reg_anc[m]:
                if rp.role[m] == "stored":
                    me = first.get(("wr_effect", S.store_name[m]))
                    if me is None:
                        return f"stored n{m} is downstream of rebuilt n{n} but was not rewritten in the same run", 0, 0
                    if me < w_eff:
                        return f"downstream stored n{m} was written (seq {me}) before upstream n{n} (seq {w_eff})", 0, 0
                elif rp.role[m] == "alias":
                    pass  # shares the store of its (rebuilt) target
                elif rp.role[m] == "dsrc":
                    me = first.get(("side_write", S.store_name[m]))
                    if me is None or me < w_eff:
                        return f"dependent source n{m} downstream of rebuilt n{n} was not re-produced after it", 0, 0
    # a dependent source that is out of date is read only after the calls it depends on have run
    for d in S.reg:
        if rp.role[d] == "dsrc" and exp.ood[d] and d in exp.reads:
            p = rp.producer_of[d]
            pe = last.get(("end", p))
            r_start = first.get(("rd", S.store_name[d]))
            if pe is None or r_start is None or r_start < pe:
                return f"out-of-date dependent source n{d} was read (seq {r_start}) before its producer n{p} finished (seq {pe})", 0, 0
            # ... and after every other call it depends on in this run (explicit add_dependency edges included)
            for u in S.eff_anc(exp, d):
                if ir.nodes[u].kind == "call" and u in exp.execs:
                    ue = last.get(("end", u))
                    if ue is None or r_start < ue:
                        return (f"out-of-date dependent source n{d} was read (seq {r_start}) before n{u}, which it depends on and which executes in this run, "
                                f"had finished (seq {ue})"), 0, 0
    # an out-of-date alias source (shares the store of a rebuilt node, ordered after it by a dependency) is read after that write
    for a, tgt in rp.alias_of.items():
        if exp.ood[a] and a in exp.reads and tgt in exp.writes:
            w_end = last.get(("wr_end", S.store_name[tgt]))
            rds = [s_ for s_, k, key, tid, x in H.events if k == "rd" and key == S.store_name[a]]
            if w_end is None or not rds or min(rds) < w_end:
                return f"alias source n{a} (store of rebuilt n{tgt}) was read (seq {min(rds) if rds else None}) before the write of n{tgt} ended (seq {w_end})", 0, 0
    # a guarded source (its only predecessor is a stored node) that is read in a run in which that node is rebuilt is read after the write
    for g in S.reg:
        if rp.role[g] == "gsrc" and g in exp.reads:
            for p_ in S.preds[g]:
                if p_ in exp.writes:
                    w_end = last.get(("wr_end", S.store_name[p_]))
                    r_start = first.get(("rd", S.store_name[g]))
                    if w_end is None or r_start is None or r_start < w_end:
                        return f"source n{g}, which depends on rebuilt stored n{p_}, was read (seq {r_start}) before that value was written (seq {w_end})", 0, 0
    # identity: what consumers and the output receive is the object returned by the store's read in this run
    for m, (args, kwitems) in H.args_seen.items():
        n = ir.nodes[m]
        got = list(args) + [v for _, v in kwitems]
        want = [a.a for a in n.args] + [a.a for _, a in n.kwargs]
        for g, p in zip(got, want):
            if p in S.reg:
                idchecks += 1
                st = S.stores[p]
                if st.normalising:
                    normchecks += 1
                m_start = first.get(("start", m))
                if not any(g is rr and s1 < m_start for rr, s0, s1 in st.reads_returned):
                    return (f"consumer n{m} (started seq {m_start}) received {g!r} for registered n{p}, which is not an object returned by a read of "
                            f"the store that finished before it started ({st.reads_returned!r})"), idchecks, normchecks
    if out_ids is not None and result is not None:
        pairs = [(result, int(out_ids))] if isinstance(out_ids, regmodel.Bare) else list(zip(result, out_ids))
        for g, o in pairs:
            if o in S.reg:
                idchecks += 1
                st = S.stores[o]
                if st.normalising:
                    normchecks += 1
                if not any(g is rr for rr, _, _ in st.reads_returned):
                    return f"run output for registered n{o} is {g!r}, not a value returned by the store's read ({st.reads_returned!r})", idchecks, normchecks
    return None, idchecks, normchecks


def run_history(desc, props=("C03", "C05", "C09")):
    """With desc['tz'] the whole history runs in that process time zone, the logical clock mapped onto instants around one of the zone's
    daylight-saving transitions (see Session.use_instants)."""
    tz = desc.get("tz")
    if not tz:
        return _run_history(desc, props)
    import os
    import time

    old = os.environ.get("TZ")
    os.environ["TZ"] = tz
    time.tzset()
    try:
        return _run_history(desc, props)
    finally:
        if old is None:
            os.environ.pop("TZ", None)
        else:
            os.environ["TZ"] = old
        time.tzset()


def _run_history(desc, props=("C03", "C05", "C09")):
    """Returns (problems: list of (property, text, step index), stats dict, session, steps log)."""
    seed = desc["seed"]
    rng = random.Random(seed)
    rp = regmodel.gen_regplan(rng, desc.get("n", 10), family=desc.get("family"), cfg=desc.get("cfg"))
    S = regmodel.Session(rp, seed, all_normalising=desc.get("all_normalising"))
    H = S.H
    stats = collections.Counter()
    if desc.get("tz"):
        from vmon.checks import c18

        trng = random.Random(seed ^ 0x7A)
        tr = c18.transitions(desc["tz"], trng)
        if tr:
            T0, kind = trng.choice(tr)
            # (steps that divide 3600 s make stores report the SAME wall-clock time in the two passes of a repeated hour, differing in fold only)
            S.use_instants(T0 - trng.choice([300, 1800, 3000, 3500]), trng.choice([37, 37, 97, 97, 181, 181, 900, 1800, 3600]), trng)
            stats["histories_across_dst_transition"] = 1
    steps = desc.get("steps", 8)
    fresh = None
    problems = []
    log = []
    psrcs = [i for i in S.reg if rp.role[i] in ("psrc", "gsrc")]  # refreshed from outside
    deletable = [i for i in S.reg if rp.role[i] in ("stored", "dsrc", "slit")]
    last_ok = False
    for si in range(steps):
        r = rng.random()
        if si == 0 or r < 0.5:
            kind = "run"
        elif r < 0.57 and desc.get("interrupts", True):
            kind = "interrupt_run"
        elif r < 0.65:
            kind = "fault_run"
        elif r < 0.8:
            kind = "update"
        elif r < 0.92:
            kind = "delete"
        else:
            kind = "fresh_now"
        if kind == "update" and not psrcs:
            kind = "run"
        if kind == "delete" and not deletable:
            kind = "run"
        if kind == "update":
            i = rng.choice(psrcs)
            S.src_version[i] += 1
            S.stores[i].set_content(irmod.Val(("src", i), S.src_version[i]))
            log.append(f"{si}: update source n{i}")
            stats["updates"] += 1
            continue
        if kind == "delete":
            i = rng.choice(deletable)
            gone = S.delete(i)
            log.append(f"{si}: delete {['s%d' % g for g in gone]}")
            stats["deletions"] += 1
            continue
        if kind == "fresh_now":
            fresh = S.clock.now()
            log.append(f"{si}: fresh_time := now (tick {fresh})")
            stats["fresh_advances"] += 1
            continue
        W = rng.choice([1, 1, 2, 4, 8])
        sched = rng.choice(["default", "random", None])
        out_ids = choose_out(rng, S)
        if rng.random() < 0.3:
            fresh = choose_fresh(rng, S) if fresh is None or rng.random() < 0.5 else max(fresh, choose_fresh(rng, S) or 0)
        perturb = rng.choice(desc.get("perturbs", ["none", "none", "line"])) if W > 1 else "none"
        state_before = S.state_desc()
        exp = S.expect(out_ids, fresh)
        if kind == "interrupt_run":
            # "interrupted runs": a real SIGINT reaches the thread that called run while the k-th boundary operation (a call, a store read,
            # a write before it takes effect, a modified-time query) is in flight. That operation is held until run has raised and a source
            # has been updated behind its back - or for 60 ms, which is what happens when run properly waits for it.
            import signal
            import threading
            import time as _time

            if threading.current_thread() is not threading.main_thread():
                continue
            if signal.getsignal(signal.SIGINT) is not signal.default_int_handler:
                signal.signal(signal.SIGINT, signal.default_int_handler)
            nb = len(exp.execs) + len(exp.writes) + len(exp.reads) + len(S.reg)
            only = None
            if exp.writes and rng.random() < 0.5:
                # half of the interrupts are aimed at a store write in flight (the j-th write of the run)
                only = "wr_before"
                kpos = rng.randint(1, len(exp.writes))
            else:
                kpos = rng.randint(1, max(1, nb))
            cnt = [0]
            fired = [None]
            released = threading.Event()
            main_ident = threading.main_thread().ident

            def boundary(bkind, key):
                if only is not None and bkind != only:
                    return
                with H.lock:
                    cnt[0] += 1
                    hit = cnt[0] == kpos and fired[0] is None
                    if hit:
                        fired[0] = (bkind, key)
                if hit:
                    H.interrupt_sent = True
                    signal.pthread_kill(main_ident, signal.SIGINT)
                    released.wait(0.2)

            H.pre = lambda nid, att: boundary("call", nid)
            H.store_hook = lambda k_, st: boundary(k_, st.name) if k_ in ("rd", "wr_before", "mt") else None
            exc = None
            try:
                try:
                    res, exc = S.run(out_ids, W=W, sched=sched, fresh_tick=fresh, seed=seed + si)
                    for _ in range(20):
                        _time.sleep(0.0005)  # an interrupt that was not handled inside run surfaces here
                except KeyboardInterrupt as e:
                    exc = exc or e
            finally:
                H.pre = None
                H.store_hook = None
            if psrcs and fired[0] is not None:
                i = rng.choice(psrcs)
                if fired[0][0] == "wr_before" and rng.random() < 0.7:
                    # preferably a source the value being written was computed from
                    tgt = [j for j, nm in S.store_name.items() if nm == fired[0][1] and rp.role[j] in ("stored", "slit")]
                    up = [j for j in psrcs if tgt and j in S.reg_anc[tgt[0]]]
                    if up:
                        i = rng.choice(up)
                S.src_version[i] += 1
                S.stores[i].set_content(irmod.Val(("src", i), S.src_version[i]))
            released.set()
            for t_ in getattr(S, "leaked", ()):
                t_.join(2)
            stats["interrupted_runs"] += int(isinstance(exc, KeyboardInterrupt))
            log.append(f"{si}: interrupted run W={W} out={out_ids} SIGINT during {fired[0]} -> {type(exc).__name__}; then a source update")
            last_ok = False
            continue
        if kind == "fault_run":
            # dry count of boundary events is not needed: pick k from a plausible range; a k beyond the run's
            # events simply yields an un-faulted (successful) run, which is then checked like one.
            nb = len(exp.execs) + 2 * len(exp.writes) + len(exp.reads) + len(S.reg)
            f = Fault(H, k=rng.randint(1, max(1, nb)), kind=rng.choice(["exc", "base"]))
            f.install()
            me = rng.choice([0, 0, 1, 3, None])  # the run may be allowed to go on after the failure
            try:
                res, exc = S.run(out_ids, W=W, sched=sched, fresh_tick=fresh, perturb=perturb, seed=seed + si, max_errors=me)
            finally:
                f.uninstall()
            stats["faulted_runs"] += 1
            if f.fired is None and exc is None:
                kind = "run"  # fault position beyond the run: treat as a normal successful run
            else:
                log.append(f"{si}: faulted run W={W} sched={sched} out={out_ids} fresh={fresh} fault@{f.k}={f.fired} -> {type(exc).__name__}")
                if exc is None:
                    problems.append(("C06", f"step {si}: fault fired at {f.fired} but run returned normally", si))
                    # ... and a run that RETURNS is a run that "completes successfully": its output and the stores must be right
                    d = S.check_values(res, out_ids)
                    if d:
                        problems.append(("C03", f"step {si}: a run in which {f.fired} raised ({f.kind}) nevertheless returned normally, and {d}", si))
                    break
                if "C09" in props:
                    d = c09_check_failed_run(S, exp)
                    stats["c09_failed_runs_checked"] += 1
                    if d:
                        problems.append(("C09", f"step {si}: [faulted run, max_errors={me}, fault {f.fired}] {d}", si))
                        break
                last_ok = False
                continue
        else:
            tkw = {}
            tchoice = rng.random()
            if tchoice < 0.1:
                tkw["transform_physical"] = lambda p_, o_: (p_, o_)  # a callback that changes nothing must change nothing
            elif tchoice < 0.2:
                tkw["transform_physical"] = lambda p_, o_: (p_.copy(), o_)
            if tkw:
                stats["runs_with_transform_physical"] += 1
            if not tkw and "C09" in props and rng.random() < 0.12:
                # the run done in two steps: a dry run, then the returned physical plan executed by itself for the returned output node -
                # what comes out is held to everything a one-step run is held to (the output is what the stores' reads returned, ...)
                resd, exc = S.run(out_ids, W=W, sched=sched, fresh_tick=fresh, dry_run=True, seed=seed + si)
                res = None
                if exc is None:
                    pplan_, onode_ = resd
                    try:
                        # (all nodes of the returned plan are executed - a real run keeps the writes it requires whatever the output asks for)
                        res = S.uberjob.run(pplan_, output=[onode_, list(pplan_.graph.nodes())], max_workers=W, scheduler=sched, progress=None)[0]
                    except BaseException as e_:
                        exc = e_
                stats["runs_in_two_steps_dry_then_execute"] += 1
            else:
                res, exc = S.run(out_ids, W=W, sched=sched, fresh_tick=fresh, perturb=perturb, seed=seed + si, **tkw)
        log.append(f"{si}: run W={W} sched={sched} out={out_ids} fresh={fresh} state={state_before} -> "
                   f"{'ok' if exc is None else repr(exc)[:80]} execs={sorted(exp.execs)} writes={sorted(exp.writes)} reads={sorted(exp.reads)}")
        if exc is not None:
            problems.append(("C03", f"step {si}: un-faulted run raised {exc!r} (cause {exc.__cause__!r})", si))
            break
        stats["successful_runs"] += 1
        n_w = len(exp.writes)
        if 0 < n_w < len([i for i in S.reg if rp.role[i] == "stored"]):
            stats["partial_rebuilds"] += 1
        if n_w:
            stats["rebuild_runs"] += 1
        if "C05" in props:
            d = S.check_counts(exp)
            stats["count_checks"] += 1
            stats["uptodate_values_checked"] += sum(1 for i in S.reg if not exp.ood[i])
            stats["outofdate_values_checked"] += sum(1 for i in S.reg if exp.ood[i])
            if d:
                problems.append(("C05", f"step {si}: {d} (expected from out-of-date oracle: ood={sorted(i for i, o in exp.ood.items() if o)})", si))
        if "C09" in props:
            d, idc, nc = c09_check(S, exp, out_ids, res)
            stats["c09_identity_checks"] += idc
            stats["c09_normalising_identity_checks"] += nc
            stats["c09_rebuilt_values_checked"] += n_w
            stats["c09_rebuilt_with_executing_consumer"] += sum(1 for n in exp.writes if any(m in exp.execs for m in S.argsucc[n]))
            if d:
                problems.append(("C09", f"step {si}: {d}", si))
        if "C03" in props:
            d = S.check_values(res, out_ids)
            stats["value_checks"] += 1
            if d:
                problems.append(("C03", f"step {si}: {d}", si))
        if problems:
            break
        if "C05" in props:
            # a run repeated immediately, with no output requested, performs no call, no read and no write
            res2, exc2 = S.run(None, W=rng.choice([1, 4]), sched=sched, fresh_tick=fresh, seed=seed + si + 77)
            execs, reads, writes, side, mts = S.observed()
            stats["silent_rerun_checks"] += 1
            if exc2 is not None or execs or reads or writes or side:
                problems.append(("C05", f"step {si}: immediately repeated run with no output was not silent: exc={exc2!r} calls={dict(execs)} "
                                        f"reads={dict(reads)} writes={dict(writes)} side={dict(side)}", si))
                break
        last_ok = True
    return problems, stats, S, log
