"""File-operation fault shim for uberjob.stores._file_store (DESIGN 2.6).

Inside the harness process builtins.open and os.replace/rename/remove are replaced (for paths under the
case's scratch directory only) by counting proxies for the duration of one store write. Operations are numbered in the order performed: open, each write() call on the staging
file object, close, os.replace, os.remove. Operation k either raises OSError(errno) or kills the process
(os._exit) *before* taking effect - except `close`, which really closes and then raises, as a failed flush does.
"""
import builtins
import errno
import os as real_os


class InjectedAbort(BaseException):
    """a non-Exception abort arriving during a write (as KeyboardInterrupt / SystemExit / GeneratorExit would)"""


class Plan:
    def __init__(self, k=None, action=None, err=errno.EIO, sticky=False):
        self.k = k
        self.action = action  # None | "raise" | "exit"
        self.err = err
        self.count = 0
        self.ops = []
        self.fired = None
        self.sticky = sticky  # the failing KIND of operation keeps failing (a file system that cannot rename, a device that stays full)
        self.refired = 0
        self.die_at = None  # a SECOND fault: the process dies at this (later) operation index - whatever the code does after the first fault
        self.die_after = None  # ... or right AFTER that operation has taken effect (e.g. after an open(..., "w") has truncated its file)
        self.probe = None  # called before every intercepted file operation (an observer - another thread, another process - looking in between)

    def op(self, name, detail=None):
        if self.probe is not None:
            self.probe(self.count, name)
        self.count += 1
        self.ops.append(name)
        if self.die_at is not None and self.count == self.die_at and self.fired is not None:
            real_os._exit(137)
        if self.k is not None and self.count == self.k and self.fired is None:
            self.fired = (self.count, name)
            return True
        if self.sticky and self.fired is not None and self.action == "raise" and name == self.fired[1]:
            self.refired += 1
            return True
        return False

    def after(self, index):
        if self.die_after is not None and index == self.die_after and self.fired is not None:
            real_os._exit(137)

    def fail(self, name):
        if self.action == "exit":
            real_os._exit(137)
        if self.action == "raise_base":
            raise (KeyboardInterrupt if self.err == 1 else InjectedAbort)(f"injected abort at file operation {self.count} ({name})")
        raise OSError(self.err, f"injected {errno.errorcode.get(self.err, self.err)} at file operation {self.count} ({name})")


class FileProxy:
    def __init__(self, f, plan):
        self._f = f
        self._p = plan
        self._closed = False

    def write(self, data):
        if self._p.op("write"):
            self._p.fail("write")
        idx_ = self._p.count
        r_ = self._f.write(data)
        if self._p.die_after is not None:
            self._f.flush()  # "right after the operation took effect": the data is in the file when the process dies
        self._p.after(idx_)
        return r_

    def flush(self):
        return self._f.flush()

    def close(self):
        if self._closed:
            return
        self._closed = True
        hit = self._p.op("close")
        if hit and self._p.action == "exit":
            # death before the buffered data reaches the file: drop the buffer by closing the fd underneath
            real_os._exit(137)
        self._f.close()
        if hit:
            self._p.fail("close")

    def __enter__(self):
        return self

    def __exit__(self, *a):
        self.close()
        return False

    def __getattr__(self, name):
        return getattr(self._f, name)


class Shim:
    """Patches builtins.open, os.replace, os.rename and os.remove for the duration of one store write
    (single-threaded harness), so that a store that bypasses staged_write is intercepted as well."""

    def __init__(self, plan, root):
        self.plan = plan
        self.root = str(root)

    def __enter__(self):
        plan = self.plan
        root = self.root
        self.saved = (builtins.open, real_os.replace, real_os.rename, real_os.remove, real_os.unlink)
        r_open, r_replace, r_rename, r_remove, r_unlink = self.saved

        def inside(path):
            try:
                return str(real_os.fspath(path)).startswith(root)
            except TypeError:
                return False

        def shim_open(path, mode="r", *a, **kw):
            if isinstance(mode, str) and ("w" in mode or "a" in mode or "x" in mode or "+" in mode) and inside(path):
                if plan.op("open"):
                    plan.fail("open")
                plan.ops[-1] = "open:" + real_os.path.basename(str(path))
                idx_ = plan.count
                f_ = r_open(path, mode, *a, **kw)
                plan.after(idx_)
                return FileProxy(f_, plan)
            return r_open(path, mode, *a, **kw)

        def shim_replace(src, dst, *a, **kw):
            if inside(dst):
                if plan.op("replace"):
                    plan.fail("replace")
            return r_replace(src, dst, *a, **kw)

        def shim_rename(src, dst, *a, **kw):
            if inside(dst):
                if plan.op("replace"):
                    plan.fail("replace")
            return r_rename(src, dst, *a, **kw)

        def shim_remove(path, *a, **kw):
            if inside(path):
                if plan.op("remove"):
                    plan.fail("remove")
            return r_remove(path, *a, **kw)

        builtins.open = shim_open
        real_os.replace = shim_replace
        real_os.rename = shim_rename
        real_os.remove = shim_remove
        real_os.unlink = shim_remove
        return plan

    def __exit__(self, *a):
        builtins.open, real_os.replace, real_os.rename, real_os.remove, real_os.unlink = self.saved
        return False
