"""Paths, import-origin guard, seeds and tiers shared by every check."""
import hashlib
import os
import sys

VERIF = os.path.dirname(os.path.dirname(os.path.abspath(__file__)))
REPO = os.environ.get("VERIF_REPO", "/repo")
SRC = os.path.join(REPO, "src")
DEPS = os.path.join(VERIF, ".deps")
PYTHON = os.environ.get("VERIF_PYTHON", "/venv/bin/python")


def setup_paths():
    """Put the repository's working tree first on sys.path (the venv holds a stale copy)."""
    sys.dont_write_bytecode = True
    for p in (SRC,):
        if p in sys.path:
            sys.path.remove(p)
        sys.path.insert(0, p)
    if VERIF not in sys.path:
        sys.path.insert(1, VERIF)
    if DEPS not in sys.path:
        sys.path.append(DEPS)


def origin_ok():
    """True iff `uberjob` resolves to the working tree under REPO."""
    import uberjob

    f = os.path.realpath(uberjob.__file__)
    return f.startswith(os.path.realpath(SRC) + os.sep), f


def seed_for(*parts) -> int:
    h = hashlib.sha256("|".join(str(p) for p in parts).encode()).digest()
    return int.from_bytes(h[:8], "big")


def base_seed() -> int:
    try:
        return int(os.environ.get("VERIF_SEED", "0"))
    except ValueError:
        return 0


def jobs() -> int:
    try:
        return max(1, int(os.environ.get("VERIF_JOBS", str(min(16, os.cpu_count() or 1)))))
    except ValueError:
        return 16
