"""Worker process: runs cases of one check in its MAIN thread (needed for SIGINT cases)."""
import faulthandler
import importlib
import json
import os
import signal
import sys
import traceback


def main():
    check_id = sys.argv[1]
    proto_out = os.fdopen(os.dup(1), "w", buffering=1)
    os.dup2(2, 1)  # anything uberjob prints (console observer) goes to the log, not the protocol
    sys.stdout = os.fdopen(1, "w", buffering=1, closefd=False)
    faulthandler.enable()
    faulthandler.register(signal.SIGUSR1, all_threads=True, chain=False)
    from vmon import env

    env.setup_paths()
    ok, where = env.origin_ok()
    mod = importlib.import_module(f"vmon.checks.{check_id.lower()}")
    from vmon import abort

    def emit(i, res):
        try:
            out = json.dumps({"i": i, "res": res}, default=str)
        except Exception as ex:
            out = json.dumps({"i": i, "res": {"status": "inconclusive", "detail": f"unserialisable result {ex!r}"}})
        proto_out.write(out + "\n")
        proto_out.flush()

    for line in sys.stdin:
        line = line.strip()
        if not line:
            continue
        msg = json.loads(line)
        abort.set_emitter(lambda res, i=msg["i"]: emit(i, res))
        if not ok:
            res = {"status": "inconclusive", "detail": f"uberjob imported from {where}, not from the working tree"}
        else:
            try:
                res = mod.run_case(msg["desc"])
            except BaseException as ex:  # harness error: never a verdict
                res = {
                    "status": "inconclusive",
                    "detail": f"harness exception {ex!r}",
                    "trace": traceback.format_exc()[-3000:],
                    "taint": True,
                }
        emit(msg["i"], res)


if __name__ == "__main__":
    main()
