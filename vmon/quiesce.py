"""Quiescence detector, wave driver and logical deadlock verdict (DESIGN 2.5).

A thread is *parked* when the kernel reports it sleeping inside futex(FUTEX_WAIT[_BITSET]) with a NULL
timeout - the state of an untimed `lock.acquire()`, i.e. `queue.get()`, `queue.join()`, `Thread.join()` and the
harness gate. (A thread waiting for the GIL uses a *timed* wait and is therefore never "parked".)
The process is *quiescent* when in two consecutive sampling rounds every engine thread is parked with
identical context-switch counters: nothing ran in between, and nothing can run until the harness acts.
No sleep length enters a verdict.
"""
import os
import sys
import threading
import time
import traceback

FUTEX = "202"


def probe(native_id):
    """(parked?, ctx-switch counter) of one kernel thread; (False, None) when not parked / unreadable."""
    try:
        with open(f"/proc/self/task/{native_id}/syscall") as f:
            sc = f.read().split()
        if len(sc) < 5 or sc[0] != FUTEX:
            return False, None
        op = int(sc[2], 16) & 0x7F
        if op not in (0, 9) or int(sc[4], 16) != 0:
            return False, None
        vol = nonvol = None
        state = None
        with open(f"/proc/self/task/{native_id}/status") as f:
            for line in f:
                if line.startswith("State:"):
                    state = line.split()[1]
                elif line.startswith("voluntary_ctxt_switches:"):
                    vol = int(line.split()[1])
                elif line.startswith("nonvoluntary_ctxt_switches:"):
                    nonvol = int(line.split()[1])
        if state != "S" or vol is None:
            return False, None
        return True, (vol, nonvol)
    except (OSError, ValueError, IndexError):
        return False, None


def available():
    ok, _ = probe(threading.get_native_id())  # running thread: must read but not be parked
    try:
        open(f"/proc/self/task/{threading.get_native_id()}/syscall").read()
        return True
    except OSError:
        return False


def _is_display(t):
    """a bundled observer's display thread: timed waits, never touches the plan"""
    return getattr(getattr(t, "_target", None), "__name__", "") == "_run_update_thread"


class WaveDriver:
    """Controlled scheduler at user-call granularity.

    Every call blocks at `gate()` on entry; at each quiescent state `on_quiescent(driver, gated)` runs
    (assertions), then a seeded non-empty subset of the gated calls is released.
    """

    def __init__(self, rng, policy="mixed", on_quiescent=None, on_deadlock=None, period=0.0003):
        self.rng = rng
        self.policy = policy
        self.on_quiescent = on_quiescent
        self.on_deadlock = on_deadlock
        self.period = period
        self._stop_ev = threading.Event()  # stop() wakes the sampling thread at once (a 50 ms sleep would delay every run's return)
        self.lock = threading.Lock()
        self.gated = {}  # key -> lock object (arrival order preserved)
        self.passed = 0
        self.released = 0
        self.waves = []
        self.quiescent_states = 0
        self.rounds = 0  # sampling rounds taken
        self.parked_rounds = 0  # rounds in which every engine thread was parked
        self.stopping = False
        self.run_done = False
        self.thread = None
        self.before = None
        self.caller = None
        self.hold = False  # when True the driver releases nothing (used by C17 while an interrupt is pending)
        self.error = None
        self.open = False  # when True gate() does not block any more
        self.on_tick = None  # called on every sampling round (also when no quiescent state is found)

    # -- called from inside the plan's functions
    def gate(self, key):
        if self.open:
            return
        l = threading.Lock()
        l.acquire()
        with self.lock:
            if self.open:
                return
            self.gated[key] = l
        l.acquire()  # untimed: parked until the driver releases
        with self.lock:
            self.passed += 1

    # -- engine threads = every kernel thread of this process except those that existed before start (other than
    #    the caller) and the driver itself. Kernel threads are listed from /proc/self/task, so a Python thread that
    #    is already gone from threading.enumerate() but has not finished exiting is still seen (as running).
    def engine_threads(self):
        out = []
        for t in threading.enumerate():
            if t is self.thread:
                continue
            if t is self.caller or t not in self.before:
                if _is_display(t):
                    continue
                out.append(t)
        return out

    def display_threads_alive(self):
        return any(t not in self.before and _is_display(t) for t in threading.enumerate())

    def sample(self, include_display=False):
        try:
            tids = os.listdir("/proc/self/task")
        except OSError:
            return None
        known = {t.native_id: t for t in threading.enumerate()}
        vec = []
        for tid in tids:
            tid = int(tid)
            if tid in self.excluded_tids:
                continue
            t = known.get(tid)
            if t is not None and not include_display and _is_display(t):
                continue
            ok, cs = probe(tid)
            if not ok:
                return None
            vec.append((tid, cs))
        vec.sort()
        return vec

    def confirm_all_parked(self):
        """Two samples over ALL kernel threads (display threads included) agree and are parked."""
        a = self.sample(include_display=True)
        if a is None:
            return False
        self._stop_ev.wait(self.period)
        return a == self.sample(include_display=True)

    def _diagnose(self):
        try:
            lines = []
            known = {t.native_id: t.name for t in threading.enumerate()}
            for tid in os.listdir("/proc/self/task"):
                if int(tid) in self.excluded_tids:
                    continue
                try:
                    sc = open(f"/proc/self/task/{tid}/syscall").read().strip()[:60]
                except OSError as e:
                    sc = repr(e)
                lines.append(f"tid {tid} ({known.get(int(tid), '?')}): parked={probe(int(tid))} syscall={sc}")
            print("vmon.quiesce: no quiescent state after many rounds; released=%d passed=%d hold=%s\n  %s" % (
                self.released, self.passed, self.hold, "\n  ".join(lines)), file=sys.stderr, flush=True)
        except Exception as e:  # pragma: no cover
            print("vmon.quiesce: diagnose failed", e, file=sys.stderr)

    def wait_quiescent(self):
        prev = None
        spins = 0
        while not self.stopping:
            spins += 1
            if self.on_tick is not None:
                self.on_tick()
            if spins == 60000:
                self._diagnose()
            with self.lock:
                pending = self.released - self.passed
            if pending > 0:
                prev = None
                self._stop_ev.wait(self.period)
                continue
            vec = self.sample()
            self.rounds += 1
            if vec is not None:
                self.parked_rounds += 1
            if vec is not None and vec == prev:
                # re-check the handshake: nothing was released meanwhile (only we release) -> stable
                return True
            prev = vec
            self._stop_ev.wait(self.period)
        return False

    def start(self, caller=None):
        self.caller = caller or threading.current_thread()
        self.before = set(threading.enumerate())
        self.thread = threading.Thread(target=self._loop, name="vmon-wave-driver", daemon=True)
        self.before.add(self.thread)
        self.excluded_tids = {t.native_id for t in self.before if t is not self.caller and t.native_id is not None}
        self.thread.start()
        self.excluded_tids.add(self.thread.native_id)

    def stop(self):
        self.stopping = True
        self._stop_ev.set()
        self.release_all()
        if self.thread is not None:
            self.thread.join()

    def release_all(self):
        with self.lock:
            self.open = True
            g = list(self.gated.values())
            self.gated.clear()
            self.released += len(g)
        for l in g:
            l.release()

    def release(self, keys):
        with self.lock:
            ls = [self.gated.pop(k) for k in keys if k in self.gated]
            self.released += len(ls)
        for l in ls:
            l.release()

    def choose(self, keys):
        rng = self.rng
        pol = self.policy
        if pol == "mixed":
            pol = rng.choice(["all", "one", "subset", "oldest", "newest"])
        if pol == "all" or len(keys) == 1:
            return list(keys)
        if pol == "one":
            return [rng.choice(keys)]
        if pol == "oldest":
            return [keys[0]]
        if pol == "newest":
            return [keys[-1]]
        k = rng.randint(1, len(keys))
        return rng.sample(keys, k)

    def stacks(self):
        frames = sys._current_frames()
        out = {}
        for t in self.engine_threads():
            fr = frames.get(t.ident)
            if fr is not None:
                out[t.name] = [f"{fs.filename.split('/')[-1]}:{fs.lineno}:{fs.name}" for fs in traceback.extract_stack(fr)][-8:]
        return out

    def _loop(self):
        try:
            while not self.stopping:
                if not self.wait_quiescent():
                    return
                if self.stopping or self.run_done:
                    return
                with self.lock:
                    keys = list(self.gated)
                self.quiescent_states += 1
                if self.on_quiescent is not None:
                    self.on_quiescent(self, keys)
                if self.hold:
                    self._stop_ev.wait(self.period)
                    continue
                if not keys:
                    if self.run_done or self.stopping:
                        return
                    if not self.confirm_all_parked():
                        # e.g. the caller waits (untimed) for a bundled observer's display thread, which wakes on a timer
                        self._stop_ev.wait(self.period)
                        continue
                    if self.run_done or self.stopping:
                        # the caller left run() meanwhile and is parked joining THIS thread: it set the flags before parking
                        return
                    # every engine thread is parked in an untimed wait, no call is held by the harness,
                    # run() has not returned: nothing can ever move again.
                    if self.on_deadlock is not None:
                        self.on_deadlock(self.stacks())
                    return
                chosen = self.choose(keys)
                self.waves.append([list(map(str, keys)), list(map(str, chosen))])
                self.release(chosen)
        except BaseException as e:  # pragma: no cover
            self.error = repr(e) + traceback.format_exc()[-1500:]
            self.release_all()
