"""Schedule perturber: bytecode-granular yield injection inside the engine's own code (sys.monitoring).

CPython only switches threads at calls and backward jumps; with INSTRUCTION events enabled on exactly the
engine's code objects, the callback can hand the GIL over *between any two bytecodes* of that code.
The perturber is never the oracle; it only makes bad interleavings likely.
"""
import os
import random
import sys
import threading
import time
import types

from . import env

mon = sys.monitoring
E = mon.events
TOOL = 4

ENGINE_FILES = (
    "uberjob/_execution/run_function_on_graph.py",
    "uberjob/_execution/scheduler.py",
    "uberjob/_execution/run_physical.py",
    "uberjob/_transformations/caching.py",
    "uberjob/_util/retry.py",
    "uberjob/_util/networkx_util.py",
    "uberjob/progress/_simple_progress_observer.py",
    "uberjob/progress/_composite_progress_observer.py",
)


def _codes_of(obj, out, seen):
    if isinstance(obj, types.CodeType):
        if id(obj) in seen:
            return
        seen.add(id(obj))
        out.append(obj)
        for c in obj.co_consts:
            if isinstance(c, types.CodeType):
                _codes_of(c, out, seen)
    elif isinstance(obj, (types.FunctionType,)):
        _codes_of(obj.__code__, out, seen)
    elif isinstance(obj, (staticmethod, classmethod)):
        _codes_of(obj.__func__, out, seen)
    elif isinstance(obj, property):
        for f in (obj.fget, obj.fset, obj.fdel):
            if f is not None:
                _codes_of(f, out, seen)
    elif isinstance(obj, type):
        for v in vars(obj).values():
            if isinstance(v, (types.FunctionType, staticmethod, classmethod, property)):
                _codes_of(v, out, seen)
    elif hasattr(obj, "__wrapped__"):
        _codes_of(obj.__wrapped__, out, seen)


def discover_codes(extra_files=(), include_queue=True):
    """All code objects defined in the engine files (discovered by file, not by name) + stdlib queue.py."""
    import uberjob  # noqa
    import uberjob._execution.run_function_on_graph  # noqa
    import uberjob._execution.run_physical  # noqa
    import uberjob._transformations.caching  # noqa
    import uberjob._util.retry  # noqa
    import uberjob.progress._simple_progress_observer  # noqa
    import uberjob.progress._composite_progress_observer  # noqa
    import queue as _q

    targets = [os.path.join(env.SRC, f) for f in ENGINE_FILES] + list(extra_files)
    targets = {os.path.realpath(t) for t in targets}
    if include_queue:
        targets.add(os.path.realpath(_q.__file__))
    out, seen = [], set()
    for m in list(sys.modules.values()):
        f = getattr(m, "__file__", None)
        if not f or os.path.realpath(f) not in targets:
            continue
        for v in list(vars(m).values()):
            if isinstance(v, (types.FunctionType, type)) and getattr(v, "__module__", None) == m.__name__:
                _codes_of(v, out, seen)
            elif hasattr(v, "__wrapped__") and getattr(v, "__module__", None) == m.__name__:
                _codes_of(v, out, seen)
    return [c for c in out if os.path.realpath(c.co_filename) in targets]


class Perturber:
    """Per-thread seeded yields at instruction (or line) boundaries of the target code objects."""

    def __init__(self, seed, mode="instr", mean_gap=None, slow_frac=0.25, codes=None):
        self.seed = seed
        self.mode = mode
        r = random.Random(seed)
        self.mean_gap = mean_gap or r.choice([2, 4, 8, 20, 60])
        self.p_sleep = r.choice([0.02, 0.05, 0.15])
        self.slow_frac = slow_frac
        self.codes = codes if codes is not None else discover_codes()
        self.local = threading.local()
        self.tcount = 0
        self.tlock = threading.Lock()
        self.last_tid = None
        self.events = 0
        self.yields = 0
        self.switch_points = set()
        self.active = False

    def _state(self):
        st = getattr(self.local, "st", None)
        if st is None:
            with self.tlock:
                self.tcount += 1
                k = self.tcount
            rng = random.Random(self.seed * 1000003 + k)
            slow = rng.random() < self.slow_frac
            # (a budget of real sleeps per thread: a thread that spends its time inside one long critical section - a display rendering under
            # its lock - would otherwise hold everybody up for minutes; after the budget it only yields)
            st = self.local.st = [rng, 1 + int(rng.expovariate(1.0 / self.mean_gap)), slow, 400]
        return st

    def _cb(self, code, where):
        self.events += 1
        tid = threading.get_ident()
        if tid != self.last_tid:
            if self.last_tid is not None:
                self.switch_points.add((code.co_name, where))
            self.last_tid = tid
        st = self._state()
        st[1] -= 1
        if st[1] <= 0:
            rng = st[0]
            gap = self.mean_gap * (0.3 if st[2] else 1.0)
            st[1] = 1 + int(rng.expovariate(1.0 / gap))
            self.yields += 1
            if st[3] > 0 and rng.random() < (self.p_sleep * (3 if st[2] else 1)):
                st[3] -= 1
                time.sleep(rng.uniform(0.00005, 0.0005))
            else:
                time.sleep(0)

    def start(self):
        ev = E.INSTRUCTION if self.mode == "instr" else E.LINE
        mon.use_tool_id(TOOL, "vmon-perturb")
        mon.register_callback(TOOL, ev, self._cb)
        for c in self.codes:
            mon.set_local_events(TOOL, c, ev)
        self._ev = ev
        self._old_si = sys.getswitchinterval()
        sys.setswitchinterval(1e-6)
        self.active = True

    def stop(self):
        if not self.active:
            return
        for c in self.codes:
            try:
                mon.set_local_events(TOOL, c, 0)
            except Exception:
                pass
        mon.register_callback(TOOL, self._ev, None)
        mon.free_tool_id(TOOL)
        sys.setswitchinterval(self._old_si)
        self.active = False

    def __enter__(self):
        self.start()
        return self

    def __exit__(self, *a):
        self.stop()


class NullPerturber:
    events = 0
    yields = 0
    switch_points = frozenset()

    def __enter__(self):
        return self

    def __exit__(self, *a):
        pass


def make(seed, mode):
    if mode in (None, "none"):
        return NullPerturber()
    return Perturber(seed, mode=mode)
