"""Boundary recorder: one lock, one sequence counter, the plan's own call functions.

Everything a check decides on is stamped here, under `H.lock`, together with the shadow state it
updates (in-flight counters, attempt counters), so the monitor cannot itself be the race.
"""
import threading
import time
import weakref

from . import ir as irmod


class InjectedError(Exception):
    pass


class InjectedBase(BaseException):
    pass


class Harness:
    def __init__(self, ir=None, record_args=True):
        self.ir = ir
        self.lock = threading.Lock()
        self.seq = 0
        self.events = []  # (seq, kind, nid, tid, extra)
        self.in_flight = 0
        self.max_in_flight = 0
        self.attempts = {}  # nid -> number of starts
        self.ended_ok = {}  # nid -> seq of (last) normal end
        self.raised = {}  # nid -> [exception objects] in order
        self.args_seen = {}  # nid -> (args tuple, kwargs items list)  (last attempt)
        self.record_args = record_args
        self.keep_exceptions = True  # C16 sets this to False: an exception's traceback pins frames, and through them results
        self.pre = None  # callable(nid, attempt) run inside the call, outside the lock; may block or raise
        self.post = None  # callable(nid, attempt, result)
        self.result_refs = {}  # nid -> weakref (C16)
        self.track_results = False
        self.fns = {}
        self.attempts_store = {}  # (kind, store name) -> count
        self.store_hook = None  # callable(kind, store); may block or raise
        self.mt_in_flight = 0
        self.max_mt_in_flight = 0

    interrupt_sent = False  # set by harnesses that send a real SIGINT to the thread that called run

    def reset(self):
        with self.lock:
            self.interrupt_sent = False
            self.seq = 0
            self.events = []
            self.in_flight = 0
            self.max_in_flight = 0
            self.attempts = {}
            self.ended_ok = {}
            self.raised = {}
            self.args_seen = {}
            self.result_refs = {}
            self.attempts_store = {}
            self.mt_in_flight = 0
            self.max_mt_in_flight = 0

    # -- stamping
    def stamp(self, kind, nid, extra=None):
        with self.lock:
            self.seq += 1
            self.events.append((self.seq, kind, nid, threading.get_ident(), extra))
            return self.seq

    def make_fn(self, n):
        """The plan's own function for IR call node n."""
        H = self
        nid = n.id
        ir = self.ir

        def fn(*args, **kwargs):
            tid = threading.get_ident()
            with H.lock:
                H.seq += 1
                att = H.attempts.get(nid, 0) + 1
                H.attempts[nid] = att
                H.in_flight += 1
                if H.in_flight > H.max_in_flight:
                    H.max_in_flight = H.in_flight
                H.events.append((H.seq, "start", nid, tid, H.in_flight))
                if H.record_args:
                    H.args_seen[nid] = (args, list(kwargs.items()))
            try:
                if H.pre is not None:
                    H.pre(nid, att)
                res = irmod.compute(ir, n, list(args), list(kwargs.items()))
                if H.post is not None:
                    H.post(nid, att, res)
            except BaseException as e:
                with H.lock:
                    H.seq += 1
                    H.in_flight -= 1
                    H.raised.setdefault(nid, []).append(e if H.keep_exceptions else type(e).__name__)
                    H.events.append((H.seq, "raise", nid, tid, type(e).__name__))
                raise
            with H.lock:
                H.seq += 1
                H.in_flight -= 1
                H.ended_ok[nid] = H.seq
                H.events.append((H.seq, "end", nid, tid, None))
                if H.track_results:
                    try:
                        H.result_refs[nid] = weakref.ref(res)
                    except TypeError:
                        pass
            return res

        fn.__name__ = n.fname or f"f{nid}"
        fn.__qualname__ = fn.__name__
        fn.__module__ = "vmonfn"
        fn._nid = nid
        self.fns[nid] = fn
        return fn

    # -- history queries
    def starts(self):
        return [e for e in self.events if e[1] == "start"]

    def order_hash(self):
        import hashlib

        s = ",".join(f"{k[0]}{nid}" for _, k, nid, _, _ in self.events if k in ("start", "end", "raise"))
        return hashlib.sha1(s.encode()).hexdigest()[:12]

    def compact_history(self, limit=400):
        return [f"{s}:{k}:n{nid}:t{tid % 100000}" + (f":{x}" if x is not None else "") for s, k, nid, tid, x in self.events[:limit]]


def thread_census():
    return set(threading.enumerate())


def new_threads(before):
    return [t for t in threading.enumerate() if t not in before]
