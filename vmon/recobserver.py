"""Recording ProgressObserver + the C15 trace specification checker."""
import collections
import threading

from uberjob.progress import Progress, ProgressObserver


class RecObserver(ProgressObserver):
    def __init__(self, name="rec"):
        self.name = name
        self.lock = threading.Lock()
        self.trace = []  # (seq, tid, kind, section, scope, extra)
        self.exc_objects = []

    def _add(self, kind, section=None, scope=None, extra=None):
        with self.lock:
            self.trace.append((len(self.trace), threading.get_ident(), kind, section, scope, extra))

    def __enter__(self):
        self._add("enter")

    def __exit__(self, exc_type, exc_val, exc_tb):
        self._add("exit", extra=None if exc_type is None else exc_type.__name__)

    def increment_total(self, *, section, scope, amount):
        self._add("total", section, scope, amount)

    def increment_running(self, *, section, scope):
        self._add("running", section, scope)

    def increment_completed(self, *, section, scope):
        self._add("completed", section, scope)

    def increment_failed(self, *, section, scope, exception):
        self.exc_objects.append(exception)
        self._add("failed", section, scope, type(exception).__name__)

    def progress(self):
        return Progress(lambda: self)

    def signature(self):
        """thread-independent view of the sequence (for comparing composite members)"""
        return [(k, s, sc, x) for _, _, k, s, sc, x in self.trace]


def make_null_based_recorder(name):
    """A recording observer whose class derives from the bundled NullProgressObserver (overriding everything): still an observer that
    must receive every notification."""
    from uberjob.progress._null_progress_observer import NullProgressObserver

    class NullBasedRec(RecObserver, NullProgressObserver):
        pass

    return NullBasedRec(name)


class FalsyRec(RecObserver):
    """A recording observer whose truth value is False (it has a length - the number of failures seen so far - or counts as 'empty' like a
    Counter-based one): `observer or default` is not `observer if observer is not None else default`."""

    def __len__(self):
        return sum(1 for t in self.trace if t[2] == "failed")


class FlakyNotify(RecObserver):
    """records, then raises in the j-th `completed` notification"""

    def __init__(self, name, j):
        super().__init__(name)
        self.j = j
        self.n = 0

    def increment_completed(self, *, section, scope):
        RecObserver.increment_completed(self, section=section, scope=scope)
        self.n += 1
        if self.n == self.j:
            raise MemberFault(f"{self.name}.increment_completed failed")


def run_with_flaky_completed(seed):
    """composite (recorder, flaky): the flaky member raises inside a `completed` notification. Whatever the run does then, the healthy
    recorder in front of it must never see a call closed twice (running -> completed -> failed)."""
    import collections
    import random

    import uberjob
    import uberjob.progress as up

    rng = random.Random(seed)
    rec0 = RecObserver("rec")
    flaky = FlakyNotify("flaky", rng.randint(1, 3))
    plan = uberjob.Plan()
    prev = None
    for i in range(rng.randint(2, 5)):
        with plan.scope(rng.choice(["s", 1, ("t", 2)])):
            prev = plan.call((lambda *a: 1), *([prev] if prev is not None and rng.random() < 0.6 else []))
    exc = None
    try:
        uberjob.run(plan, output=prev, progress=(rec0.progress(), flaky.progress()), max_workers=rng.choice([1, 2]), max_errors=rng.choice([0, None]))
    except BaseException as e:
        exc = e
    bal = collections.Counter()
    for _, tid, kind, section, scope, extra in rec0.trace:
        if kind == "running":
            bal[(section, scope)] += 1
        elif kind in ("completed", "failed"):
            bal[(section, scope)] -= 1
            if bal[(section, scope)] < 0:
                return (f"the recorder received {kind!r} for {(section, scope)} without an open 'running' (a call was closed twice: "
                        f"{[t[2] for t in rec0.trace if t[4] == scope]})"), {"raised": repr(exc)[:80]}
    kinds = [t[2] for t in rec0.trace]
    if kinds.count("exit") != 1 or kinds[-1] != "exit":
        return f"the recorder was exited {kinds.count('exit')} times / received {kinds[-1]!r} last", {"raised": repr(exc)[:80]}
    return None, {"raised": repr(exc)[:80]}


class MemberFault(Exception):
    pass


class FaultyObserver(RecObserver):
    """A user's observer that breaks: raises in __enter__ or in __exit__ (after recording the call)."""

    def __init__(self, name, where):
        super().__init__(name)
        self.where = where

    def __enter__(self):
        self._add("enter")
        if self.where == "enter":
            raise MemberFault(f"{self.name}.__enter__ failed")

    def __exit__(self, exc_type, exc_val, exc_tb):
        self._add("exit", extra=None if exc_type is None else exc_type.__name__)
        if self.where == "exit":
            raise MemberFault(f"{self.name}.__exit__ failed")


def run_with_faulty_member(seed, n_members, bundled, compose):
    """One run of a small plan under a composite observer one of whose members raises in __enter__ / __exit__.
    Returns (problem or None, info). Healthy members that were entered must be exited exactly once, members after a member whose
    __enter__ failed are never entered nor notified, the failure propagates out of run, and every thread run created
    (the display threads of bundled members) exits."""
    import random
    import time

    import uberjob
    import uberjob.progress as up

    from . import quiesce, rec

    rng = random.Random(seed)
    where = rng.choice(["enter", "exit"])
    k = rng.randrange(n_members)
    recs = [FaultyObserver(f"m{i}", where) if i == k else RecObserver(f"m{i}") for i in range(n_members)]
    members = [r.progress() for r in recs]
    pos = {i: i for i in range(n_members)}
    if bundled:
        j = rng.randint(0, len(members))
        members.insert(j, up.Progress(lambda: up.ConsoleProgressObserver(initial_update_delay=0.0005, min_update_interval=0.0005, max_update_interval=0.001)))
    if compose == "tuple":
        progress = tuple(members)
    elif compose == "flat" or len(members) < 3:
        progress = up.composite_progress(*members)
    else:
        progress = up.composite_progress(members[0], up.composite_progress(*members[1:]))
    plan = uberjob.Plan()
    calls = []
    a = plan.call(lambda: calls.append(1) or 1)
    b = plan.call(lambda x: calls.append(2) or x + 1, a)
    before = rec.thread_census()
    exc = None
    try:
        uberjob.run(plan, output=b, progress=progress, max_workers=rng.choice([1, 3]))
    except BaseException as e:
        exc = e
    info = {"where": where, "faulty_member": k, "members": n_members, "bundled": bundled, "compose": compose, "raised": repr(exc)[:80]}
    if not isinstance(exc, MemberFault):
        return f"a member's {where} failure did not propagate out of run (run ended with {exc!r})", info
    for i, r in enumerate(recs):
        kinds = [t[2] for t in r.trace]
        entered, exited = kinds.count("enter"), kinds.count("exit")
        if where == "enter" and i > k:
            if kinds:
                return f"member {i} was entered/notified ({kinds[:4]}) although member {k}, entered before it, had failed in __enter__", info
            continue
        if where == "enter" and i == k:
            continue  # its own __enter__ raised: whether it is exited is its own business
        if entered != 1 or exited != 1:
            return (f"healthy member {i} of the composite was entered {entered}x and exited {exited}x (member {k} raises in __{where}__): "
                    f"an entered observer must be exited exactly once"), info
        if kinds[-1] != "exit" or kinds[0] != "enter":
            return f"healthy member {i} received {kinds[-1]!r} after __exit__ / before __enter__", info
    if where == "enter" and calls:
        return "calls were executed although the observer could not be entered", info
    # threads created by run (display threads of bundled members) must exit
    leaked = rec.new_threads(before)
    deadline = time.monotonic() + 10
    while leaked and time.monotonic() < deadline:
        time.sleep(0.01)
        leaked = [t for t in leaked if t.is_alive()]
    if leaked:
        return f"thread(s) created by run are still alive after it raised: {[getattr(getattr(t, '_target', None), '__name__', t.name) for t in leaked]}", info
    return None, info


def check_trace(trace, *, balanced, succeeded):
    """Trace specification. `balanced`: every call ended normally or with an Exception (then running must be closed)."""
    if not trace:
        return "observer received no notification at all (not even __enter__)"
    kinds = [t[2] for t in trace]
    if kinds[0] != "enter":
        return f"first notification is {kinds[0]!r}, not __enter__"
    if kinds.count("enter") != 1:
        return f"__enter__ called {kinds.count('enter')} times"
    if kinds.count("exit") != 1:
        return f"__exit__ called {kinds.count('exit')} times"
    if kinds[-1] != "exit":
        return f"notification {kinds[-1]!r} arrived after __exit__"
    total = collections.Counter()
    running = collections.Counter()
    closed = collections.Counter()
    per_thread = collections.Counter()
    completed = collections.Counter()
    failed = collections.Counter()
    for seq, tid, kind, section, scope, extra in trace:
        key = (section, scope)
        if kind == "total":
            total[key] += extra
        elif kind == "running":
            running[key] += 1
            if running[key] > total[key]:
                return f"'running' #{running[key]} for {key} reported before a total covering it was announced (total so far {total[key]})"
            per_thread[tid] += 1
            if balanced and per_thread[tid] > 1:
                return f"thread {tid} reported a second 'running' ({key}) before closing its first"
        elif kind in ("completed", "failed"):
            closed[key] += 1
            (completed if kind == "completed" else failed)[key] += 1
            per_thread[tid] -= 1
            if closed[key] > running[key]:
                return f"completed+failed ({closed[key]}) exceeds running ({running[key]}) for {key}"
    if balanced:
        for key in running:
            if running[key] != closed[key]:
                return f"{running[key] - closed[key]} entr(ies) of {key} still reported running when the observer was exited"
    if succeeded:
        for key in total:
            if completed[key] != total[key]:
                return f"after a successful run completed ({completed[key]}) != total ({total[key]}) for {key}"
    return None


def totals(trace, section):
    t = collections.Counter()
    for seq, tid, kind, sec, scope, extra in trace:
        if kind == "total" and sec == section:
            t[scope] += extra
    return t
