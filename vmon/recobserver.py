"""Recording ProgressObserver + the C15 trace specification checker."""
import collections
import threading

from uberjob.progress import Progress, ProgressObserver


class RecObserver(ProgressObserver):
    def __init__(self, name="rec"):
        self.name = name
        self.lock = threading.Lock()
        self.trace = []  # (seq, tid, kind, section, scope, extra)
        self.exc_objects = []

    def _add(self, kind, section=None, scope=None, extra=None):
        with self.lock:
            self.trace.append((len(self.trace), threading.get_ident(), kind, section, scope, extra))

    def __enter__(self):
        self._add("enter")

    def __exit__(self, exc_type, exc_val, exc_tb):
        self._add("exit", extra=None if exc_type is None else exc_type.__name__)

    def increment_total(self, *, section, scope, amount):
        self._add("total", section, scope, amount)

    def increment_running(self, *, section, scope):
        self._add("running", section, scope)

    def increment_completed(self, *, section, scope):
        self._add("completed", section, scope)

    def increment_failed(self, *, section, scope, exception):
        self.exc_objects.append(exception)
        self._add("failed", section, scope, type(exception).__name__)

    def progress(self):
        return Progress(lambda: self)

    def signature(self):
        """thread-independent view of the sequence (for comparing composite members)"""
        return [(k, s, sc, x) for _, _, k, s, sc, x in self.trace]


def check_trace(trace, *, balanced, succeeded):
    """Trace specification. `balanced`: every call ended normally or with an Exception (then running must be closed)."""
    if not trace:
        return "observer received no notification at all (not even __enter__)"
    kinds = [t[2] for t in trace]
    if kinds[0] != "enter":
        return f"first notification is {kinds[0]!r}, not __enter__"
    if kinds.count("enter") != 1:
        return f"__enter__ called {kinds.count('enter')} times"
    if kinds.count("exit") != 1:
        return f"__exit__ called {kinds.count('exit')} times"
    if kinds[-1] != "exit":
        return f"notification {kinds[-1]!r} arrived after __exit__"
    total = collections.Counter()
    running = collections.Counter()
    closed = collections.Counter()
    per_thread = collections.Counter()
    completed = collections.Counter()
    failed = collections.Counter()
    for seq, tid, kind, section, scope, extra in trace:
        key = (section, scope)
        if kind == "total":
            total[key] += extra
        elif kind == "running":
            running[key] += 1
            if running[key] > total[key]:
                return f"'running' #{running[key]} for {key} reported before a total covering it was announced (total so far {total[key]})"
            per_thread[tid] += 1
            if balanced and per_thread[tid] > 1:
                return f"thread {tid} reported a second 'running' ({key}) before closing its first"
        elif kind in ("completed", "failed"):
            closed[key] += 1
            (completed if kind == "completed" else failed)[key] += 1
            per_thread[tid] -= 1
            if closed[key] > running[key]:
                return f"completed+failed ({closed[key]}) exceeds running ({running[key]}) for {key}"
    if balanced:
        for key in running:
            if running[key] != closed[key]:
                return f"{running[key] - closed[key]} entr(ies) of {key} still reported running when the observer was exited"
    if succeeded:
        for key in total:
            if completed[key] != total[key]:
                return f"after a successful run completed ({completed[key]}) != total ({total[key]}) for {key}"
    return None


def totals(trace, section):
    t = collections.Counter()
    for seq, tid, kind, sec, scope, extra in trace:
        if kind == "total" and sec == section:
            t[scope] += extra
    return t
