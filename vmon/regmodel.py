"""Registry model: generator of (plan, registry) pairs, the two oracles (from-scratch evaluator and the
declarative out-of-date / need oracle) and a session object that runs real uberjob.run steps (DESIGN 2.2).

Only documented registry patterns are generated: stored calls, pure sources, dependent sources with an
*unstored, dedicated* producer that has a registered ancestor, chains of unstored intermediates,
plain-dependency edges, shuffled registry insertion order.
"""
import collections
import random
import threading

from . import ir as irmod
from . import perturb as pert
from . import rec
from . import vstore
from .ir import IR, X, ref


class Bare(int):
    """out_ids value meaning `output=<that node itself>` (not a list)."""


def ids_of(out_ids):
    if out_ids is None:
        return []
    if isinstance(out_ids, Bare):
        return [int(out_ids)]
    return list(out_ids)


class RegPlan:
    def __init__(self):
        self.ir = IR()
        self.role = {}  # nid -> plain | stored | producer | psrc | dsrc
        self.producer_of = {}  # dsrc nid -> producer nid
        self.dsrc_of = {}  # producer nid -> [dsrc nids] in the order the producer writes them (a chain d1 -> d2 -> ...)
        self.normalising = {}  # nid -> bool
        self.chain_lits = set()
        self.alias_of = {}  # alias source nid -> stored nid whose store it shares (test_source_dependent_on_write)

    def registered(self):
        return [i for i, r in self.role.items() if r in REGISTERED]

    def is_source(self, i):
        return self.role[i] in ("psrc", "dsrc", "alias", "gsrc")


REGISTERED = ("stored", "psrc", "dsrc", "alias", "slit", "gsrc")


def gen_regplan(rng, n, family=None, cfg=None):
    cfg = cfg or {}
    family = family or rng.choice(["chain", "layers", "join", "tree", "diamond", "zipper", "crisscross", "random", "random", "disconnected"])
    P = irmod.skeleton(rng, family, n)
    rp = RegPlan()
    ir = rp.ir
    ir.meta["family"] = family
    p_src = cfg.get("p_src", 0.6)
    p_store = cfg.get("p_store", rng.choice([0.3, 0.5, 0.8]))
    p_dsrc = cfg.get("p_dsrc", 0.15)
    p_dep = cfg.get("p_dep", 0.2)
    p_kw = cfg.get("p_kw", 0.2)
    p_norm = cfg.get("p_norm", 0.5)
    p_alias = cfg.get("p_alias", 0.12)
    p_slit = cfg.get("p_slit", 0.12)
    p_ulit = cfg.get("p_ulit", 0.08)
    p_chain = cfg.get("p_chain", 0.4)
    KW = ["zeta", "alpha", "m10", "m9", "beta", "k2"]
    sk2id = {}
    has_reg_anc = {}
    preds_of = {}

    def reg_anc(i):
        return has_reg_anc.get(i, False)

    for si in range(n):
        preds = [sk2id[p] for p in sorted(P[si])]
        rng.shuffle(preds)
        if not preds and rng.random() < p_slit:
            nd = ir.add("lit", value=rng.choice([7, "lit", (1, 2), None, 3.5]), scope=_scope(rng), fname="lit")
            rp.role[nd.id] = "slit"  # a registered literal: its value is written to / read back from its store
            rp.normalising[nd.id] = rng.random() < p_norm
            has_reg_anc[nd.id] = False
            sk2id[si] = nd.id
            continue
        if not preds and rng.random() < p_src:
            nd = ir.add("source", scope=_scope(rng), fname="src")
            rp.role[nd.id] = "psrc"
            rp.normalising[nd.id] = rng.random() < p_norm
            has_reg_anc[nd.id] = False
            sk2id[si] = nd.id
            continue
        args, kwargs, deps = [], [], []
        for p in preds:
            r = rng.random()
            if rp.role[p] == "producer":
                raise AssertionError("producers are dedicated")
            if rng.random() < p_ulit:
                # routed through an UNREGISTERED literal ("milestone"): p -> lit by add_dependency, lit -> this call as an argument or
                # as a plain dependency. Staleness, modified times and ordering must flow through it.
                lit = ir.add("lit", value=rng.choice([7, "u", (1, 2), None]), scope=_scope(rng), fname="ulit")
                rp.role[lit.id] = "ulit"
                has_reg_anc[lit.id] = rp.role[p] in REGISTERED or reg_anc(p)
                ir.deps.append((p, lit.id))
                if rng.random() < 0.5:
                    args.append(ref(lit.id))
                else:
                    deps.append(lit.id)
                continue
            if r < p_dep:
                deps.append(p)
            elif r < p_dep + p_kw and len(kwargs) < len(KW):
                kwargs.append((KW[len(kwargs)], ref(p)))
            else:
                args.append(ref(p))
            if rng.random() < 0.08:
                deps.append(p)  # parallel plain dependency
            if rng.random() < 0.1:
                # the same value used twice by one call: f(x, x) or f(x, k=x)
                if rng.random() < 0.5 or len(kwargs) >= len(KW):
                    args.append(ref(p))
                else:
                    kwargs.append((KW[len(kwargs)], ref(p)))
        nd = ir.add("call", args=args, kwargs=kwargs, scope=_scope(rng), fname=f"fn{rng.randrange(4)}")
        for d in deps:
            ir.deps.append((d, nd.id))
        if preds and rng.random() < cfg.get("p_redundant", 0.12):
            # an explicit dependency on something that is already upstream through other nodes (possibly through stored values that are up to
            # date and therefore cut the path): it still has to be honoured when that upstream call executes in the run
            up = [u for u in ir.ancestors(preds) if u not in preds and ir.nodes[u].kind == "call" and rp.role.get(u) in ("plain", "stored")]
            if up:
                u_ = rng.choice(sorted(up))
                ir.deps.append((u_, nd.id))
                ir.meta.setdefault("redundant_deps", []).append((u_, nd.id))
        anc_reg = any(rp.role[p] in REGISTERED or reg_anc(p) for p in preds)
        has_reg_anc[nd.id] = anc_reg
        r = rng.random()
        # (one producer in five has NO registered ancestor: nothing upstream of its sources carries a modified time - such a source is out of date
        # only when it is missing, whatever fresh_time says)
        if preds and (anc_reg or rng.random() < 0.2) and r < p_dsrc:
            rp.role[nd.id] = "producer"
            # the producer writes one store, or several in a fixed order: sources chained by add_dependency
            # (call -> source A -> source B, as in test_failed_to_read_from_empty_store_2), possibly through a milestone literal
            chain = []
            prev = nd.id
            k = 1 + int(rng.random() < p_chain) + int(rng.random() < p_chain * 0.4)
            if not anc_reg:
                k = 1  # (behind a time-less producer a second chain member would be "older than fresh_time" for ever with nobody to rewrite it: section 5)
            for _ in range(k):
                if rng.random() < 0.2:
                    lit = ir.add("lit", value="milestone", fname="ulit")
                    rp.role[lit.id] = "ulit"
                    rp.chain_lits.add(lit.id)  # between a producer and its source: requesting it as output would re-run the producer
                    has_reg_anc[lit.id] = True
                    ir.deps.append((prev, lit.id))
                    prev = lit.id
                s = ir.add("source", scope=_scope(rng), fname="dsrc")
                rp.role[s.id] = "dsrc"
                rp.normalising[s.id] = rng.random() < p_norm
                ir.deps.append((prev, s.id))
                rp.producer_of[s.id] = nd.id
                has_reg_anc[s.id] = True
                if rng.random() < 0.3:
                    ir.meta.setdefault("early_sources", set()).add(s.id)  # created (registry.source) before everything else
                chain.append(s.id)
                prev = s.id
            rp.dsrc_of[nd.id] = chain
            if rng.random() < max(0.25, cfg.get("p_redundant", 0.0)):
                # the source also depends EXPLICITLY on a call further upstream of its writer (already an ancestor through other nodes)
                up = [u for u in ir.ancestors([nd.id]) if u != nd.id and ir.nodes[u].kind == "call" and rp.role.get(u) in ("plain", "stored")]
                if up:
                    u_ = rng.choice(sorted(up))
                    tgt_ = rng.choice(chain)
                    ir.deps.append((u_, tgt_))
                    ir.meta.setdefault("redundant_deps", []).append((u_, tgt_))
            sk2id[si] = rng.choice(chain)
        else:
            if rng.random() < p_store:
                rp.role[nd.id] = "stored"
                rp.normalising[nd.id] = rng.random() < p_norm
                if rng.random() < p_alias:
                    # alias pattern: a source that reads the store this node writes, ordered after it by a dependency;
                    # downstream nodes consume either the node or its alias
                    a = ir.add("source", scope=_scope(rng), fname="alias")
                    rp.role[a.id] = "alias"
                    rp.alias_of[a.id] = nd.id
                    rp.normalising[a.id] = rp.normalising[nd.id]
                    ir.deps.append((nd.id, a.id))
                    has_reg_anc[a.id] = True
                    ir.meta.setdefault("alias_first", {})[a.id] = rng.random() < 0.5
                    if rng.random() < 0.6:
                        sk2id[si] = a.id
                        continue
            else:
                rp.role[nd.id] = "plain"
            sk2id[si] = nd.id
            if rp.role[nd.id] == "stored" and rng.random() < cfg.get("p_gsrc", 0.1):
                # "guarded" source: a source with its own store (refreshed from outside, like a pure source) whose ONLY predecessor is a stored
                # node (plan.add_dependency(stored, source)): it may only be read after that node's value is in place. Nothing consumes it (a
                # leaf, possibly requested as output): once the stored node has been rebuilt the source is older than its predecessor, i.e. out
                # of date, but there is nothing a run could do about that - and nothing it may do because of it.
                g = ir.add("source", scope=_scope(rng), fname="gsrc")
                rp.role[g.id] = "gsrc"
                rp.normalising[g.id] = rng.random() < p_norm
                ir.deps.append((nd.id, g.id))
                has_reg_anc[g.id] = True
                if rng.random() < 0.6:
                    ir.meta.setdefault("early_sources", set()).add(g.id)  # registered before its predecessor
    return rp


def _scope(rng):
    if rng.random() < 0.7:
        return ()
    return tuple(rng.choice(["a", "b", 1, ("t", 2)]) for _ in range(rng.randint(1, 2)))


class Expect:
    pass


class Session:
    """One (plan, registry, stores) instance on which a history of steps is executed."""

    def __init__(self, rp, seed, all_normalising=None):
        import uberjob

        self.uberjob = uberjob
        self._seed = seed
        self.rp = rp
        self.ir = rp.ir
        self.H = rec.Harness(self.ir, record_args=True)
        self.clock = vstore.Clock()
        self.plan = uberjob.Plan()
        self.registry = uberjob.Registry()
        self.stores = {}
        self.src_version = collections.Counter()
        rng = random.Random(seed ^ 0xB11D)
        ir = self.ir
        pending_adds = []
        early = ir.meta.get("early_sources", ())
        for n in ir.nodes:
            # node creation order is not a topological order: some dependent sources are declared first and wired up later
            if n.id in early:
                norm = rp.normalising[n.id] if all_normalising is None else all_normalising
                st = self._mk_store(n.id, norm)
                self.stores[n.id] = st
                if n.scope:
                    with self.plan.scope(*n.scope):
                        n.node = self.registry.source(self.plan, st)
                else:
                    n.node = self.registry.source(self.plan, st)
                if rp.role[n.id] == "gsrc":
                    st.set_content(irmod.Val(("src", n.id), 0))
        for n in ir.nodes:
            role = rp.role[n.id]
            if n.id in early:
                continue
            if n.kind == "lit" and role == "ulit":
                if n.scope:
                    with self.plan.scope(*n.scope):
                        n.node = self.plan.lit(n.value)
                else:
                    n.node = self.plan.lit(n.value)
                continue
            if n.kind == "lit":
                if n.scope:
                    with self.plan.scope(*n.scope):
                        n.node = self.plan.lit(n.value)
                else:
                    n.node = self.plan.lit(n.value)
                norm = rp.normalising[n.id] if all_normalising is None else all_normalising
                self.stores[n.id] = self._mk_store(n.id, norm)
                pending_adds.append(n.id)
                continue
            if n.kind == "source":
                norm = rp.normalising[n.id] if all_normalising is None else all_normalising
                if role == "alias":
                    tgt = rp.alias_of[n.id]
                    st = self.stores[tgt]
                    if tgt in pending_adds and not ir.meta.get("alias_first", {}).get(n.id):
                        pending_adds.remove(tgt)  # register the writing node BEFORE its alias source
                        self.registry.add(ir.nodes[tgt].node, st)
                else:
                    st = self._mk_store(n.id, norm)
                self.stores[n.id] = st
                if n.scope:
                    with self.plan.scope(*n.scope):
                        n.node = self.registry.source(self.plan, st)
                else:
                    n.node = self.registry.source(self.plan, st)
                if role in ("psrc", "gsrc"):
                    st.set_content(irmod.Val(("src", n.id), 0))
            else:
                args = [ir.nodes[a.a].node for a in n.args]
                kwargs = {k: ir.nodes[a.a].node for k, a in n.kwargs}
                for a in n.args:
                    a.built = ir.nodes[a.a].node
                fn = self.H.make_fn(n)
                if n.scope:
                    with self.plan.scope(*n.scope):
                        n.node = self.plan.call(fn, *args, **kwargs)
                else:
                    n.node = self.plan.call(fn, *args, **kwargs)
                if role == "stored":
                    norm = rp.normalising[n.id] if all_normalising is None else all_normalising
                    st = self._mk_store(n.id, norm)
                    self.stores[n.id] = st
                    pending_adds.append(n.id)
            # registry.add at random later points => shuffled registry insertion order
            while pending_adds and rng.random() < 0.4:
                i = pending_adds.pop(rng.randrange(len(pending_adds)))
                self.registry.add(ir.nodes[i].node, self.stores[i])
        rng.shuffle(pending_adds)
        for i in pending_adds:
            self.registry.add(ir.nodes[i].node, self.stores[i])
        for s, d in ir.deps:
            self.plan.add_dependency(ir.nodes[s].node, ir.nodes[d].node)
        self.preds = ir.preds()
        self.succs = ir.succs()
        self.argsucc = {n.id: set() for n in ir.nodes}
        for n in ir.nodes:
            for p in n.nav_refs():
                self.argsucc[p].add(n.id)
        self.reg = set(rp.registered())
        self.reg_anc = {i: (ir.ancestors([i], self.preds) - {i}) & self.reg for i in range(len(ir.nodes))}
        self.store_name = {i: st.name for i, st in self.stores.items()}
        H = self.H
        prod = rp.dsrc_of

        def post(nid, att, res):
            for d in prod.get(nid, ()):
                self.stores[d].side_write(res)

        self.side_post = post
        H.post = post
        if seed % 4 == 1:
            # a store clock far ahead of the wall clock (skew): every modified time (and fresh_time) lies in the year 2090. Which values are
            # out of date depends on the modified times relative to each other, never on "now".
            import datetime as _dt

            far = _dt.datetime(2090, 1, 1)
            for st in self.stores.values():
                st.dt_of = (lambda tick, far=far: far + _dt.timedelta(seconds=tick))
            self.fresh_dt = lambda tick, far=far: far + _dt.timedelta(seconds=tick)
            self.future_clock = True
        self.chain_of = {d: ch for ch in prod.values() for d in ch}

    fresh_dt = None
    future_clock = False

    def use_instants(self, T0, step, rng):
        """Logical tick t denotes the instant T0 + t*step (epoch seconds); every store reports its modified time in its own representation
        (naive local time with fold, aware UTC, aware fixed offset, aware zone) and fresh_time is handed over in a random one."""
        from vmon.checks import c18

        for st in self.stores.values():
            rep = c18.rand_rep(rng)
            st.dt_of = (lambda tick, rep=rep: c18.represent(T0 + tick * step, rep))
        self.fresh_dt = lambda tick: c18.represent(T0 + tick * step, c18.rand_rep(rng, 0.4))

    def _mk_store(self, i, norm):
        # one store in four has a length (0 while empty): a falsy store object
        cls = vstore.SizedVStore if (self._seed + i * 7919) % 4 == 0 else vstore.VStore
        return cls(f"s{i}", self.clock, self.H, normalising=norm)

    def delete(self, i):
        """Delete a stored value. A member of a chain of dependent sources is deleted together with the members before it: a later
        member missing on its own can never be rebuilt (its producer is only re-run for the head of the chain)."""
        ch = self.chain_of.get(i)
        if ch is None:
            self.stores[i].delete()
            return [i]
        gone = ch[: ch.index(i) + 1]
        for j in gone:
            self.stores[j].delete()
        return gone

    def eff_anc(self, exp, i):
        """What node i depends on IN THIS RUN: dependencies are followed through nodes that execute or are rebuilt, not through stored values
        that are up to date (those are simply read from their store)."""
        seen, st = set(), list(self.preds[i])
        while st:
            u = st.pop()
            if u in seen:
                continue
            seen.add(u)
            if u in self.reg and not exp.ood.get(u):
                continue
            st.extend(self.preds[u])
        return {u for u in seen if not (u in self.reg and not exp.ood.get(u))}

    def lit_successor_calls(self, n):
        """calls reachable from n through one or more unregistered literals only"""
        out = set()
        st = [m for m in self.succs[n] if self.rp.role[m] == "ulit"]
        seen = set()
        while st:
            l = st.pop()
            if l in seen:
                continue
            seen.add(l)
            for m in self.succs[l]:
                if self.rp.role[m] == "ulit":
                    st.append(m)
                elif self.ir.nodes[m].kind == "call":
                    out.add(m)
        return out

    # ------------------------------------------------------------------ oracles
    def scratch(self):
        """From-scratch evaluator on the current pure-source contents: raw value and seen value per node."""
        rp, ir = self.rp, self.ir
        raw, seen = {}, {}
        for n in ir.nodes:
            role = rp.role[n.id]
            if role in ("psrc", "gsrc"):
                v = self.stores[n.id].content
            elif role == "dsrc":
                v = raw[rp.producer_of[n.id]]
            elif role == "alias":
                v = raw[rp.alias_of[n.id]]
            elif role in ("slit", "ulit"):
                v = n.value
            else:
                v = irmod.compute(ir, n, [seen[a.a] for a in n.args], [(k, seen[a.a]) for k, a in n.kwargs])
            raw[n.id] = v
            if n.id in self.reg and self.stores[n.id].normalising:
                seen[n.id] = vstore.ReadVal(None, 0, vstore.norm_dig(v))
            else:
                seen[n.id] = v
        return raw, seen

    def ood(self, fresh_tick=None, state=None):
        """Declarative out-of-date oracle. state: {nid: mtick or None} (default: current stores)."""
        rp = self.rp
        mt = state if state is not None else {i: self.stores[i].mtick for i in self.reg}
        out = {}
        for i in sorted(self.reg):  # id order is a topological order
            m = mt[i]
            anc = self.reg_anc[i]
            if m is None:
                o = True
            elif any(out[a] for a in anc):
                o = True
            elif any(mt[a] > m for a in anc):
                o = True
            elif fresh_tick is not None and fresh_tick > m and (not rp.is_source(i) or anc):
                o = True
            else:
                o = False
            out[i] = o
        return out

    def expect(self, out_ids, fresh_tick=None):
        """Exact multiset of call executions, store writes, reads and side writes of a successful run."""
        rp, ir = self.rp, self.ir
        O = set(ids_of(out_ids))
        ood = self.ood(fresh_tick)
        need = set()
        # least fixpoint over unregistered calls, in reverse topological (id) order
        for n in reversed(ir.nodes):
            i = n.id
            if i in self.reg:
                continue
            nd = i in O
            if not nd:
                for m in self.succs[i]:
                    if m in self.reg:
                        if ood[m]:
                            nd = True
                            break
                    elif m in need:
                        nd = True
                        break
            if nd:
                need.add(i)
        execs = {i for i in need if ir.nodes[i].kind == "call"}
        for i in self.reg:
            if rp.role[i] == "stored" and ood[i]:
                execs.add(i)
        writes = {i for i in self.reg if rp.role[i] in ("stored", "slit") and ood[i]}
        reads = set()
        for p in self.reg:
            if p in O or any(m in execs for m in self.argsucc[p]):
                reads.add(p)
        side = {d for p in execs for d in rp.dsrc_of.get(p, ())}
        e = Expect()
        e.ood, e.execs, e.writes, e.reads, e.side = ood, execs, writes, reads, side
        return e

    # ------------------------------------------------------------------ running
    def snapshot(self):
        return {i: st.snapshot() for i, st in self.stores.items()}, self.clock.t

    def restore(self, snap):
        states, t = snap
        for i, s in states.items():
            self.stores[i].restore(s)
        self.clock.t = t

    def out_spec(self, out_ids):
        if out_ids is None:
            return None
        if isinstance(out_ids, Bare):
            return self.ir.nodes[int(out_ids)].node
        return [self.ir.nodes[i].node for i in out_ids]

    def run(self, out_ids=None, W=1, sched=None, fresh_tick=None, perturb="none", seed=0, dry_run=False, **kw):
        H = self.H
        H.reset()
        for st in self.stores.values():
            st.reads_returned = []
        random.seed(seed & 0xFFFFFFFF)
        fresh = None if fresh_tick is None else (self.fresh_dt(fresh_tick) if self.fresh_dt is not None else vstore.Clock.to_dt(fresh_tick))
        # cheap logical-deadlock watcher (as in plainrun): a run that can never finish is reported at once as inconclusive for the property at
        # hand (C07 owns the hang verdict) instead of waiting for the wall-clock watchdog
        drv = None
        if kw.pop("hang_watch", True) and threading.current_thread() is threading.main_thread():
            from . import plainrun

            drv = plainrun._hang_watch(H, {"session": True}, None)
        try:
            return self._run_inner(out_ids, W, sched, fresh, perturb, seed, dry_run, rec.thread_census(), kw)
        finally:
            if drv is not None:
                drv.run_done = True
                drv.stop()

    def _run_inner(self, out_ids, W, sched, fresh, perturb, seed, dry_run, before, kw):
        res = exc = None
        with pert.make(seed, perturb) as P:
            try:
                res = self.uberjob.run(
                    self.plan, output=self.out_spec(out_ids), registry=kw.pop("registry", self.registry), max_workers=W, scheduler=sched,
                    fresh_time=fresh, progress=kw.pop("progress", None), dry_run=dry_run, **kw
                )
            except BaseException as e:
                exc = e
        self.last_perturb = P
        self.leaked = rec.new_threads(before)
        return res, exc

    def observed(self):
        """Multisets observed in the last run: calls by node id; store operations by STORE NAME (a store can be shared by a
        stored node and its alias source)."""
        H = self.H
        execs = collections.Counter()
        reads = collections.Counter()
        writes = collections.Counter()
        side = collections.Counter()
        mts = collections.Counter()
        for s, k, key, tid, x in H.events:
            if k == "start":
                execs[key] += 1
            elif k == "rd":
                reads[key] += 1
            elif k == "wr":
                writes[key] += 1
            elif k == "side_write":
                side[key] += 1
            elif k == "mt":
                mts[key] += 1
        return execs, reads, writes, side, mts

    def check_counts(self, exp):
        """C05: exact multisets. Returns None or a description."""
        execs, reads, writes, side, mts = self.observed()

        def diff(name, got, want):
            if name == "call executions":
                want_c = collections.Counter({i: 1 for i in want})
            else:
                want_c = collections.Counter(self.store_name[i] for i in want)
            if got != want_c:
                extra = sorted((got - want_c).elements())
                missing = sorted((want_c - got).elements())
                return f"{name}: unexpected/extra {extra[:8]} missing {missing[:8]}"
            return None

        for name, got, want in (("call executions", execs, exp.execs), ("store writes", writes, exp.writes),
                                ("store reads", reads, exp.reads), ("producer side-writes", side, exp.side)):
            d = diff(name, got, want)
            if d:
                return d
        return None

    def check_counts_retry(self, exp, flaky):
        """Like check_counts, but store operations that fail their first j attempts are expected j+1 times."""
        execs, reads, writes, side, mts = self.observed()
        for name, got, want, kind in (("store writes", writes, exp.writes, "wr_before"), ("store reads", reads, exp.reads, "rd")):
            want_c = collections.Counter()
            for i in want:
                want_c[self.store_name[i]] += 1
            for nm in list(want_c):
                want_c[nm] += flaky.get((kind, nm), 0)  # the first j attempts on that store fail, whoever issues them
            if got != want_c:
                return f"{name}: got {dict(got)} expected {dict(want_c)}"
        # a call whose write/read-back is retried is still executed once
        want_c = collections.Counter({i: 1 for i in exp.execs})
        if execs != want_c:
            return f"call executions: got {dict(execs)} expected {dict(want_c)}"
        return None

    def check_values(self, result, out_ids):
        """C03: output and every non-pure-source store equal the from-scratch values."""
        raw, seen = self.scratch()
        if out_ids is not None:
            want = seen[int(out_ids)] if isinstance(out_ids, Bare) else [seen[i] for i in out_ids]
            if not irmod.struct_eq(result, want):
                return f"output {irmod.canon(result)[:200]} differs from from-scratch {irmod.canon(want)[:200]}"
        elif result is not None:
            return f"run without output returned {result!r}"
        for i, st in self.stores.items():
            if self.rp.role[i] in ("psrc", "gsrc"):
                continue
            if st.content is vstore.MISSING:
                return f"store s{i} ({self.rp.role[i]}) is empty after a successful run"
            if not irmod.struct_eq(st.content, raw[i]):
                return f"store s{i} ({self.rp.role[i]}) holds {irmod.canon(st.content)[:120]}, from-scratch value is {irmod.canon(raw[i])[:120]}"
        return None

    def check_fresh_values(self, fresh_tick):
        """C08: every stored value a later run would treat as up to date equals its from-scratch value."""
        raw, seen = self.scratch()
        ood = self.ood(fresh_tick)
        for i, st in self.stores.items():
            if self.rp.role[i] in ("psrc", "gsrc") or ood[i]:
                continue
            if not irmod.struct_eq(st.content, raw[i]):
                return f"store s{i} would be treated as up to date but holds {irmod.canon(st.content)[:120]}; from-scratch value is {irmod.canon(raw[i])[:120]}"
        return None

    def describe(self, limit=60):
        lines = []
        for n in self.ir.nodes[:limit]:
            role = self.rp.role[n.id]
            if n.kind == "source":
                lines.append(f"n{n.id} = {role} store={self.stores[n.id].name}{' norm' if self.stores[n.id].normalising else ''}")
            elif n.kind == "lit" and role == "ulit":
                lines.append(f"n{n.id} = unregistered lit({n.value!r})")
            elif n.kind == "lit":
                lines.append(f"n{n.id} = {role} lit({n.value!r}) store={self.stores[n.id].name}{' norm' if self.stores[n.id].normalising else ''}")
            else:
                a = ", ".join([x.desc() for x in n.args] + [f"{k}={x.desc()}" for k, x in n.kwargs])
                st = f" store=s{n.id}{' norm' if self.stores[n.id].normalising else ''}" if n.id in self.stores else ""
                lines.append(f"n{n.id} = {role} {n.fname}({a}){st}")
        lines.append("deps: " + ", ".join(f"n{s}->n{d}" for s, d in self.ir.deps[:80]))
        return lines

    def state_desc(self):
        return {st.name: st.mtick for i, st in sorted(self.stores.items())}
