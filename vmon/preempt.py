"""Deterministic single-preemption enumeration inside the engine's node-processing code (complements the random perturber).

Scenario: a set P of calls that are all predecessors of one or more join nodes runs on |P| workers. One of them, `a`, returns
first; the worker TA that ran it goes on into the engine's bookkeeping (process_node: successor loop / failure handling, queue.put).
At the k-th instruction boundary TA executes there (sys.monitoring INSTRUCTION events on the engine's code objects, discovered by
file), TA is *held*; the other calls of P - which were waiting inside their own functions for exactly that moment - now return, and
their workers run their complete bookkeeping; then TA is resumed. Enumerating k over every instruction TA executes between the end of
`a` and the end of its process_node realises the schedule "preempted at instruction k, the others run to completion" for EVERY k,
i.e. every place where a lock might be missing or released too early, not a random sample of them.

If TA is held while it owns a lock the others need (inside a critical section), they block, the bounded wait expires and TA goes on:
that k is equivalent to "no preemption" - waits only shape the schedule, no verdict depends on them.
"""
import sys
import threading

from . import perturb

mon = sys.monitoring
E = mon.events
TOOL = 3


class OnePreemption:
    FILES = ("run_function_on_graph.py", "scheduler.py", "queue.py")

    def __init__(self, k, n_others, hold_timeout=1.0, hold="quiescent", files=None):
        self.hold = hold  # "others": until the other predecessors' workers finished their bookkeeping; "quiescent": until nothing else can move
        self.k = k  # position to hold TA at (None = just count)
        self.n_others = n_others
        self.hold_timeout = hold_timeout
        self.ta_tid = None
        self.count = 0
        self.positions = []  # (code name, offset) per position, for the witness / coverage
        self.ta_paused = threading.Event()
        self.ta_done = threading.Event()
        self.others_done = 0
        self.cv = threading.Condition()
        self.held_at = None
        self.hold_expired = False  # the others could not finish while TA was held (they need a lock TA owns): k lies inside a critical section
        self.other_native = set()
        self.finished_native = set()
        self.skip_native = set()  # kernel threads that do not belong to the run (harness watchers)
        self.waiting_native = set()  # plan functions in a timed harness wait (they are waiting for TA): not "the rest of the process" for the probes
        self.codes = [c for c in perturb.discover_codes() if c.co_filename.endswith(tuple(files or self.FILES))]
        self.pn = [c for c in self.codes if c.co_name == "process_node"]
        self.active = False

    def harness_wait(self, cond, timeout):
        """A plan function waits (bounded) for a condition on this object; while it does, the quiescence probes ignore its thread."""
        me = threading.get_native_id()
        with self.cv:
            self.waiting_native.add(me)
            try:
                self.cv.wait_for(cond, timeout)
            finally:
                self.waiting_native.discard(me)

    def bookkeeping_over(self):
        return self.ta_done.is_set()

    # -- called by the harness from inside call `a`, just before it returns (on TA)
    def arm(self):
        self.ta_tid = threading.get_ident()
        self.count = 0

    # -- the other calls of P wait here (inside their own function) until TA is held or has finished its bookkeeping
    def wait_for_ta(self, timeout=2.0):
        with self.cv:
            self.other_native.add(threading.get_native_id())
            self.cv.wait_for(lambda: self.ta_paused.is_set() or self.ta_done.is_set(), timeout)

    def _instr(self, code, offset):
        if self.ta_tid is None or threading.get_ident() != self.ta_tid or self.ta_done.is_set():
            return
        self.count += 1
        if len(self.positions) < 5000:
            self.positions.append((code.co_name, offset))
        if self.k is not None and self.count == self.k and not self.ta_paused.is_set():
            self.held_at = (code.co_name, offset)
            from . import quiesce

            with self.cv:
                self.ta_paused.set()
                self.cv.notify_all()
                import os as _os
                import time as _t

                me = threading.get_native_id()
                end = _t.monotonic() + self.hold_timeout
                stable = 0
                prev = None
                # TA stays held until the REST of the process is quiescent: every other kernel thread (the other predecessors' workers,
                # idle workers that picked up a successor TA has just published, the caller of run) is parked in an untimed futex wait,
                # with unchanged context-switch counters in consecutive probes. So "everything that can happen while TA is preempted
                # here" has happened - including a child of TA running to completion - or the others are blocked on a lock TA owns.
                while _t.monotonic() < end:
                    self.cv.wait(0.002)
                    if self.hold == "others" and self.others_done >= self.n_others:
                        break
                    vec = []
                    ok = True
                    try:
                        tids = [int(t) for t in _os.listdir("/proc/self/task")]
                    except OSError:
                        tids = []
                    skip = self.skip_native | {me} | self.waiting_native
                    for t in tids:
                        if t in skip:
                            continue
                        parked, cs = quiesce.probe(t)
                        if not parked:
                            ok = False
                            break
                        vec.append((t, cs))
                    if ok and vec and vec == prev:
                        stable += 1
                        if stable >= 2:
                            break
                    else:
                        stable = 0
                    prev = vec if ok else None
                self.hold_expired = self.others_done < self.n_others

    def _ret(self, code, offset, retval):
        if code.co_name != "process_node":
            return
        tid = threading.get_ident()
        with self.cv:
            if tid == self.ta_tid:
                pass  # TA's bookkeeping ends when it asks the queue for its next item (_start), not when process_node returns
            elif self.ta_paused.is_set():
                self.others_done += 1
                self.finished_native.add(threading.get_native_id())
            self.cv.notify_all()

    def _is_queue_get(self, code):
        return code.co_name == "get" and code.co_filename.endswith("queue.py")

    def _start(self, code, offset):
        # the enumerated window is "from the end of call a until TA's worker loop asks for the next item": it covers whatever the loop does
        # after process_node returned (task_done, and anything a refactoring moves there) as well
        if not self._is_queue_get(code):
            return
        tid = threading.get_ident()
        if tid == self.ta_tid and self.count > 0 and not self.ta_done.is_set():
            with self.cv:
                self.ta_done.set()
                self.cv.notify_all()
        else:
            self._start_other(tid)

    def _start_other(self, tid):
        pass

    def __enter__(self):
        mon.use_tool_id(TOOL, "vmon-preempt")
        mon.register_callback(TOOL, E.INSTRUCTION, self._instr)
        mon.register_callback(TOOL, E.PY_RETURN, self._ret)
        mon.register_callback(TOOL, E.PY_START, self._start)
        for c in self.codes:
            mon.set_local_events(TOOL, c, E.INSTRUCTION | (E.PY_RETURN if c.co_name == "process_node" else 0) | (E.PY_START if self._is_queue_get(c) else 0))
        mon.set_events(TOOL, 0)
        self.active = True
        return self

    def __exit__(self, *a):
        for c in self.codes:
            try:
                mon.set_local_events(TOOL, c, 0)
            except Exception:
                pass
        for ev in (E.INSTRUCTION, E.PY_RETURN, E.PY_START):
            mon.register_callback(TOOL, ev, None)
        mon.free_tool_id(TOOL)
        self.active = False
        return False


# ----------------------------------------------------------------------------------------------- scenarios
SHAPES = ["join2", "join3", "two_joins", "hub", "hub_chain", "mixed", "edge_kinds", "join_then"]


def build_ir(shape):
    """Returns (ir, P, slow): P = the calls that finish 'together' (TA is one of them), slow = ids of deliberately slow calls."""
    from . import ir as irmod

    ref = irmod.ref
    ir = irmod.IR()
    slow = []
    if shape in ("join2", "join3"):
        P = [ir.add("call", fname=f"p{i}") for i in range(2 if shape == "join2" else 3)]
        j = ir.add("call", fname="join", args=[ref(p.id) for p in P])
        out = [j.id]
    elif shape == "two_joins":
        P = [ir.add("call", fname=f"p{i}") for i in range(2)]
        j1 = ir.add("call", fname="join", args=[ref(P[0].id), ref(P[1].id)])
        j2 = ir.add("call", fname="join", args=[ref(P[1].id)], kwargs=[("k", ref(P[0].id))])
        out = [j1.id, j2.id]
    elif shape in ("hub", "hub_chain"):
        P = [ir.add("call", fname=f"p{i}") for i in range(2 if shape == "hub" else 3)]
        lit = ir.add("lit", value="hub")
        for p in P:
            ir.deps.append((p.id, lit.id))
        e = ir.add("call", fname="slow")
        slow.append(e.id)
        d = ir.add("call", fname="join", args=[ref(lit.id), ref(e.id)])  # the literal is an argument: not pruned
        out = [d.id]
        if shape == "hub_chain":
            d2 = ir.add("call", fname="after", args=[ref(d.id)])
            out = [d2.id]
    elif shape == "mixed":
        P = [ir.add("call", fname=f"p{i}") for i in range(2)]
        s1 = ir.add("call", fname="single", args=[ref(P[0].id)])  # single-parent successor: enqueued directly
        j = ir.add("call", fname="join", args=[ref(P[0].id), ref(P[1].id)])
        s2 = ir.add("call", fname="single", args=[ref(P[1].id)])
        out = [s1.id, j.id, s2.id]
    elif shape == "edge_kinds":
        P = [ir.add("call", fname=f"p{i}") for i in range(3)]
        j = ir.add("call", fname="join", args=[ref(P[0].id), ref(P[0].id)], kwargs=[("k", ref(P[1].id))])  # parallel edges from p0
        ir.deps.append((P[2].id, j.id))
        ir.deps.append((P[0].id, j.id))
        out = [j.id]
    elif shape == "join_then":
        P = [ir.add("call", fname=f"p{i}") for i in range(2)]
        j = ir.add("call", fname="join", args=[ref(p.id) for p in P])
        e = ir.add("call", fname="slow")
        slow.append(e.id)
        d = ir.add("call", fname="after", args=[ref(j.id), ref(e.id)])
        out = [d.id]
    else:
        raise ValueError(shape)
    ir.output = irmod.X("list", [ref(o) for o in out])
    ir.meta["family"] = "preempt:" + shape
    return ir, [p.id for p in P], slow


def run_once(shape, a_index, k, W_extra, sched, seed, hold="quiescent"):
    """One run with TA = the worker that runs P[a_index], held at position k (None: count only). Returns (R, OP, ir, P)."""
    import time

    from . import plainrun

    ir, P, slow = build_ir(shape)
    joins = {n.id for n in ir.nodes if n.kind == "call" and n.fname == "join"}
    a = P[a_index]
    OP = OnePreemption(k, len(P) - 1, hold=hold)
    holder = {}

    def pre(nid, att):
        H = holder["R"].H
        if nid == a:
            end = time.monotonic() + 1.0
            while time.monotonic() < end:
                with H.lock:
                    started = sum(1 for p in P if p in H.attempts)
                if started == len(P):
                    break
                time.sleep(0.0002)
        elif nid in P:
            OP.wait_for_ta()
        elif nid in slow:
            # the slow input of a downstream join outlasts the bookkeeping under test, so that a join released twice shows as an ORDER violation
            OP.harness_wait(OP.bookkeeping_over, 3.0)
            time.sleep(0.03)
        elif nid in joins:
            # a join that was released is still executing when the bookkeeping under test ends: a second release then runs it a second time
            # (once it has returned, the engine has dropped its bound call and a second release only fails)
            OP.harness_wait(OP.bookkeeping_over, 0.5)

    def post(nid, att, res):
        if nid == a:
            OP.arm()

    desc = {"seed": seed, "n": len(ir.nodes), "W": len(P) + len(slow) + W_extra, "sched": sched, "perturb": "none", "delays": "none"}
    with OP:
        def before_run(R_):
            holder["R"] = R_
            if R_.hang_drv is not None and R_.hang_drv.thread is not None:
                OP.skip_native.add(R_.hang_drv.thread.native_id)

        R = plainrun.execute(desc, pre=pre, post=post, record_args=False, ir=ir, before_run=before_run)
    return R, OP, ir, P


def gen_descs(tier, seed, prop):
    from . import env

    out = []
    shapes = SHAPES
    for shape in shapes:
        nP = {"join2": 2, "join3": 3, "two_joins": 2, "hub": 2, "hub_chain": 3, "mixed": 2, "edge_kinds": 3, "join_then": 2}[shape]
        for a_index in range(nP):
            for sched in ("default", "random"):
                if tier == "quick" and (a_index + (sched == "random") + len(shape)) % 2:
                    continue  # quick tier: half of the combinations; thorough: all, with two pool sizes
                for W_extra in ((1,) if tier == "quick" else (0, 2)):
                    out.append({"seed": env.seed_for(seed, prop, tier, "preempt1", shape, a_index, sched, W_extra), "mode": "preempt1", "shape": shape,
                                "a_index": a_index, "sched": sched, "W_extra": W_extra, "n": 4, "W": nP + W_extra, "perturb": "none"})
    return out


def enumerate_case(desc, oracle):
    """oracle(R, ir) -> problem text or None. Returns a result dict for the runner."""
    import hashlib

    R, OP, ir, P = run_once(desc["shape"], desc["a_index"], None, desc["W_extra"], desc["sched"], desc["seed"])
    N = OP.count
    if N == 0:
        return {"status": "inconclusive", "detail": f"preemption enumeration: the worker of n{P[desc['a_index']]} executed no monitored instruction after its call ended"}
    bad = oracle(R, ir)
    counters = {"preempt_cases": 1, "preempt_positions_enumerated": 0, "preempt_holds_inside_critical_sections": 0, "preempt_holds_others_completed": 0,
                "preempt_position_never_reached": 0}
    points = set()
    witness = None
    raised = []
    if bad is None:
        for k, hold in [(k, h) for k in range(1, N + 1) for h in ("others", "quiescent")]:
            # two lengths of the preemption at every k: TA resumes as soon as the other predecessors' workers are done with their
            # bookkeeping (their successors may still be running), or only when nothing else in the process can move any more
            R, OP, ir, P = run_once(desc["shape"], desc["a_index"], k, desc["W_extra"], desc["sched"], desc["seed"] + k, hold=hold)
            counters["preempt_positions_enumerated"] += 1
            counters[f"preempt_holds_{hold}"] = counters.get(f"preempt_holds_{hold}", 0) + 1
            if OP.held_at is None:
                counters["preempt_position_never_reached"] += 1
            else:
                points.add(f"{OP.held_at[0]}@{OP.held_at[1]}")
                if OP.hold_expired:
                    counters["preempt_holds_inside_critical_sections"] += 1
                else:
                    counters["preempt_holds_others_completed"] += 1
            bad = oracle(R, ir)
            if bad is None and R.exc is not None:
                counters["preempt_runs_of_fault_free_plans_that_raised"] = counters.get("preempt_runs_of_fault_free_plans_that_raised", 0) + 1
                raised.append(f"k={k} held at {OP.held_at}: {R.exc!r}"[:300])
            if bad:
                bad = (f"[worker of n{P[desc['a_index']]} held at its instruction #{k} of {N} after the call ended ({OP.held_at}) until "
                       f"{'the other predecessors had finished their bookkeeping' if hold == 'others' else 'the rest of the process was quiescent'}; "
                       f"shape {desc['shape']}, {desc['sched']}, W={desc['W']}] {bad}")
                witness = {"plan": ir.describe(40), "history": R.H.compact_history(200), "k": k, "held_at": OP.held_at, "positions": OP.positions[:200]}
                break
    res = {"status": "ok", "counters": counters, "sets": {"preempt_points_held": sorted(points)}, "nontrivial": counters["preempt_holds_others_completed"] > 0,
           "sig": hashlib.sha1(f"preempt1|{desc['shape']}|{desc['a_index']}|{desc['sched']}|{desc['W_extra']}".encode()).hexdigest()[:16],
           "sample": {"desc": desc, "positions_N": N, "held_points": sorted(points)[:12]}}
    if bad:
        res.update(status="violation", detail=bad, mechanism="preempt1", witness=witness)
    elif raised:
        # the plan has no failing call: a run that raises is not what this oracle decides, but nothing was learnt from it either
        res.update(status="inconclusive", detail=f"{len(raised)} enumerated runs of a fault-free plan raised; first: {raised[0]}")
    return res


# ----------------------------------------------------------------------------------------------- two preemptions
class TwoPreemptions(OnePreemption):
    """Schedule "TA preempted at its instruction k1; TB (the worker of another predecessor, which was waiting inside its call for exactly
    that moment) runs its bookkeeping up to ITS instruction k2 and is preempted there; TA runs on to the end of its bookkeeping; TB resumes".
    This is the lost-update shape (both inside what should be one critical section) and needs two context switches at chosen places; with
    one preemption TB always runs its whole bookkeeping while TA is held. Holds end early when the thread that should run is provably
    blocked (parked on a lock the held thread owns): that pair is then equivalent to a single preemption."""

    def __init__(self, k1, k2, n_others, hold_timeout=1.0):
        super().__init__(k1, n_others, hold_timeout=hold_timeout, hold="quiescent")
        self.k2 = k2
        self.tb_tid = None
        self.count_b = 0
        self.tb_paused = threading.Event()
        self.tb_done = threading.Event()
        self.held_at_b = None
        self.hold_b_expired = False
        self.positions_b = []

    def bookkeeping_over(self):
        return self.ta_done.is_set() and (self.tb_done.is_set() or not self.ta_paused.is_set())

    def arm_b(self):
        self.tb_tid = threading.get_ident()

    def wait_for_tb(self, timeout=2.0):
        # further members of P (3-way shapes) return only when TB is through, so that the two-thread schedule is the one enumerated
        me = threading.get_native_id()
        with self.cv:
            self.other_native.add(me)
            self.waiting_native.add(me)  # in a (timed) harness wait: not part of "the rest of the process" for the quiescence probes
            try:
                self.cv.wait_for(lambda: self.tb_done.is_set() or (self.ta_done.is_set() and not self.ta_paused.is_set()), timeout)
            finally:
                self.waiting_native.discard(me)

    def _rest_quiescent_wait(self, until, skip_extra=()):
        """Called with self.cv held. Waits until until() or every other kernel thread is parked (two identical probes) or the timeout."""
        import os as _os
        import time as _t

        from . import quiesce

        me = threading.get_native_id()
        end = _t.monotonic() + self.hold_timeout
        stable = 0
        prev = None
        while _t.monotonic() < end:
            self.cv.wait(0.002)
            if until():
                return True
            vec = []
            ok = True
            try:
                tids = [int(t) for t in _os.listdir("/proc/self/task")]
            except OSError:
                tids = []
            skip = self.skip_native | {me} | self.waiting_native
            for t in tids:
                if t in skip:
                    continue
                parked, cs = quiesce.probe(t)
                if not parked:
                    ok = False
                    break
                vec.append((t, cs))
            if ok and vec and vec == prev:
                stable += 1
                if stable >= 2:
                    return False
            else:
                stable = 0
            prev = vec if ok else None
        return False

    def _instr(self, code, offset):
        tid = threading.get_ident()
        if self.ta_tid is not None and tid == self.ta_tid and not self.ta_done.is_set():
            self.count += 1
            if len(self.positions) < 3000:
                self.positions.append((code.co_name, offset))
            if self.k is not None and self.count == self.k and not self.ta_paused.is_set():
                self.held_at = (code.co_name, offset)
                with self.cv:
                    self.ta_paused.set()
                    self.cv.notify_all()
                    got = self._rest_quiescent_wait(lambda: self.tb_paused.is_set() or self.tb_done.is_set())
                    self.hold_expired = not got  # TB could not get to k2 (nor finish): it needs a lock TA owns
            return
        if self.tb_tid is not None and tid == self.tb_tid and self.ta_paused.is_set() and not self.tb_done.is_set():
            self.count_b += 1
            if len(self.positions_b) < 3000:
                self.positions_b.append((code.co_name, offset))
            if self.k2 is not None and self.count_b == self.k2 and not self.tb_paused.is_set() and not self.ta_done.is_set():
                self.held_at_b = (code.co_name, offset)
                with self.cv:
                    self.tb_paused.set()
                    self.cv.notify_all()
                    got = self._rest_quiescent_wait(lambda: self.ta_done.is_set())
                    self.hold_b_expired = not got  # TA could not finish while TB was held: TA needs a lock TB owns

    def _ret(self, code, offset, retval):
        if code.co_name != "process_node":
            return
        tid = threading.get_ident()
        with self.cv:
            if tid == self.ta_tid or tid == self.tb_tid:
                pass  # their windows end at their next queue.get (_start / _start_other)
            elif self.ta_paused.is_set():
                self.others_done += 1
            self.cv.notify_all()

    def _start_other(self, tid):
        if tid == self.tb_tid and self.ta_paused.is_set() and self.count_b > 0 and not self.tb_done.is_set():
            with self.cv:
                self.tb_done.set()
                self.others_done += 1
                self.cv.notify_all()


def run_twice_preempted(shape, a_index, b_index, k1, k2, W_extra, sched, seed):
    import time

    from . import plainrun

    ir, P, slow = build_ir(shape)
    joins = {n.id for n in ir.nodes if n.kind == "call" and n.fname == "join"}
    a, b = P[a_index], P[b_index]
    OP = TwoPreemptions(k1, k2, len(P) - 1)
    holder = {}

    def pre(nid, att):
        H = holder["R"].H
        if nid == a:
            end = time.monotonic() + 1.0
            while time.monotonic() < end:
                with H.lock:
                    started = sum(1 for p in P if p in H.attempts)
                if started == len(P):
                    break
                time.sleep(0.0002)
        elif nid == b:
            OP.wait_for_ta()
        elif nid in P:
            OP.wait_for_tb()
        elif nid in slow:
            OP.harness_wait(OP.bookkeeping_over, 3.0)
            time.sleep(0.03)
        elif nid in joins:
            OP.harness_wait(OP.bookkeeping_over, 0.5)

    def post(nid, att, res):
        if nid == a:
            OP.arm()
        elif nid == b:
            OP.arm_b()

    desc = {"seed": seed, "n": len(ir.nodes), "W": len(P) + len(slow) + W_extra, "sched": sched, "perturb": "none", "delays": "none"}
    with OP:
        def before_run(R_):
            holder["R"] = R_
            if R_.hang_drv is not None and R_.hang_drv.thread is not None:
                OP.skip_native.add(R_.hang_drv.thread.native_id)

        R = plainrun.execute(desc, pre=pre, post=post, record_args=False, ir=ir, before_run=before_run)
    return R, OP, ir, P


NP = {"join2": 2, "join3": 3, "two_joins": 2, "hub": 2, "hub_chain": 3, "mixed": 2, "edge_kinds": 3, "join_then": 2}


def gen_descs2(tier, seed, prop, focus=(), pairs_quick=90, pairs_focus=300):
    """Two-preemption cases. Quick: a seeded sample of (k1, k2) pairs per case; thorough: every pair for the 2-predecessor shapes (capped at
    9000 - the evidence reports pairs enumerated vs possible), a larger sample for the others."""
    from . import env

    out = []
    for shape in SHAPES:
        nP = NP[shape]
        for a_index in range(nP):
            for b_index in range(nP):
                if b_index == a_index:
                    continue
                if tier == "quick" and nP == 3 and (a_index, b_index) not in ((0, 1), (2, 0)):
                    continue
                sched = "default" if (a_index + b_index + len(shape)) % 3 else "random"
                pairs = (pairs_focus if shape in focus else pairs_quick) if tier == "quick" else (9000 if nP == 2 else 1500)  # 2-predecessor shapes: every pair (at most ~8000), others: a sample
                # thorough: the pairs of one (shape, a, b) are dealt out over several cases (every case stays well inside the per-case watchdog)
                nchunks = 1 if tier == "quick" else (18 if nP == 2 else 3)
                for ch in range(nchunks):
                    out.append({"seed": env.seed_for(seed, prop, tier, "preempt2", shape, a_index, b_index), "mode": "preempt2", "shape": shape, "a_index": a_index,
                                "b_index": b_index, "sched": sched, "W_extra": 1, "n": 4, "W": nP + 1, "perturb": "none", "pairs": pairs, "chunk": [ch, nchunks]})
    return out


def enumerate_pairs(desc, oracle):
    import hashlib
    import random

    shape, ai, bi = desc["shape"], desc["a_index"], desc["b_index"]
    # counting run: TA held at its first instruction so that TB's bookkeeping is counted from its start; TB never held
    R, OP, ir, P = run_twice_preempted(shape, ai, bi, 1, None, desc["W_extra"], desc["sched"], desc["seed"])
    N2 = OP.count_b
    R1, OP1, _, _ = run_once(shape, ai, None, desc["W_extra"], desc["sched"], desc["seed"])
    N1 = OP1.count
    if N1 == 0 or N2 == 0:
        return {"status": "inconclusive", "detail": f"two-preemption enumeration: no monitored instruction counted (TA {N1}, TB {N2})"}
    bad = oracle(R, ir) or oracle(R1, ir)
    allpairs = [(k1, k2) for k1 in range(1, N1 + 1) for k2 in range(1, N2 + 1)]
    rnd = random.Random(desc["seed"])
    if desc.get("pairs") and desc["pairs"] < len(allpairs):
        pairs = rnd.sample(allpairs, desc["pairs"])
    else:
        pairs = allpairs
    ch, nch = desc.get("chunk") or (0, 1)
    pairs = pairs[ch::nch]  # (the same seed in every chunk of a case: the same sample / order, dealt out)
    counters = {"preempt2_cases": 1, "preempt2_pairs_enumerated": 0, "preempt2_both_held": 0, "preempt2_ta_ran_to_end_while_tb_held": 0,
                "preempt2_tb_blocked_by_ta": 0, "preempt2_ta_blocked_by_tb": 0, "preempt2_k_not_reached": 0, "preempt2_pairs_possible": len(allpairs) if ch == 0 else 0}
    points = set()
    witness = None
    raised = []
    if bad is None:
        for n, (k1, k2) in enumerate(pairs):
            R, OP, ir, P = run_twice_preempted(shape, ai, bi, k1, k2, desc["W_extra"], desc["sched"], desc["seed"] + n)
            counters["preempt2_pairs_enumerated"] += 1
            if OP.held_at is None or OP.held_at_b is None:
                counters["preempt2_k_not_reached"] += 1
                if OP.held_at is not None and OP.hold_expired:
                    counters["preempt2_tb_blocked_by_ta"] += 1
            else:
                counters["preempt2_both_held"] += 1
                points.add(f"{OP.held_at[0]}@{OP.held_at[1]}|{OP.held_at_b[0]}@{OP.held_at_b[1]}")
                if OP.hold_b_expired:
                    counters["preempt2_ta_blocked_by_tb"] += 1
                else:
                    counters["preempt2_ta_ran_to_end_while_tb_held"] += 1
            bad = oracle(R, ir)
            if bad is None and R.exc is not None:
                counters["preempt_runs_of_fault_free_plans_that_raised"] = counters.get("preempt_runs_of_fault_free_plans_that_raised", 0) + 1
                raised.append(f"k1={k1} {OP.held_at} k2={k2} {OP.held_at_b}: {R.exc!r}"[:300])
            if bad:
                bad = (f"[worker of n{P[ai]} held at its instruction #{k1} ({OP.held_at}); worker of n{P[bi]} then ran to its instruction #{k2} ({OP.held_at_b}) "
                       f"and was held while the first ran on; shape {shape}, {desc['sched']}, W={desc['W']}] {bad}")
                witness = {"plan": ir.describe(40), "history": R.H.compact_history(200), "k1": k1, "k2": k2, "held_at": OP.held_at, "held_at_b": OP.held_at_b}
                break
    res = {"status": "ok", "counters": counters, "sets": {"preempt2_point_pairs_held": sorted(points)[:400]},
           "nontrivial": counters["preempt2_ta_ran_to_end_while_tb_held"] > 0,
           "sig": hashlib.sha1(f"preempt2|{shape}|{ai}|{bi}|{desc['sched']}|{desc.get('chunk')}".encode()).hexdigest()[:16],
           "sample": {"desc": desc, "N1": N1, "N2": N2, "pairs": len(pairs)}}
    if bad:
        res.update(status="violation", detail=bad, mechanism="preempt2", witness=witness)
    elif raised:
        res.update(status="inconclusive", detail=f"{len(raised)} enumerated runs of a fault-free plan raised; first: {raised[0]}")
    return res


# ----------------------------------------------------------------------------------------------- the error limit under preemption
def run_fail_limit(max_errors, k, W, sched, seed, ncalls=12, hold="quiescent", shape="independent"):
    """ncalls independent calls that all raise; TA = the worker whose call is the (max_errors+1)-th failure, i.e. the one that crosses the
    limit. It is held at the k-th instruction of its failure bookkeeping; the calls that fail later were waiting inside their functions for
    that moment. However long TA is preempted there, at most max_errors + W calls may fail in the run."""
    import time

    from . import ir as irmod, plainrun, rec

    ir = irmod.IR()
    slow_ok = None
    holder = {}
    if shape == "inflight":
        # exactly max_errors + 1 failing source calls, and a call that is IN FLIGHT when the limit is crossed, succeeds afterwards and
        # releases a dozen failing dependents: none of them may start any more
        # (a chain T0 -> T1 -> ... of succeeding calls, T0 being the one in flight, each with a failing side branch D_i; T_{i+1} lasts until D_i
        # has failed - so every link that still executes adds one more failure)
        calls = [ir.add("call", fname=f"f{i}") for i in range(max_errors + 1)]
        slow_ok = ir.add("call", fname="slow_ok")
        chain_t, side_d = [slow_ok], []
        for i in range(8):
            side_d.append(ir.add("call", fname=f"d{i}", args=[irmod.ref(chain_t[-1].id)]))
            chain_t.append(ir.add("call", fname=f"t{i + 1}", args=[irmod.ref(chain_t[-1].id)]))
        calls = calls + chain_t + side_d
        waits_for = {chain_t[i + 1].id: side_d[i].id for i in range(8)}
        side_ids = {d.id for d in side_d}
    else:
        calls = [ir.add("call", fname=f"f{i}") for i in range(ncalls)]
    ir.output = irmod.X("list", [irmod.ref(c.id) for c in calls])
    ir.meta["family"] = "preempt:fail_limit:" + shape
    OP = OnePreemption(k, W - 1, hold=hold)
    order = {"n": 0}
    lock = threading.Lock()

    def pre(nid, att):
        if slow_ok is not None and nid == slow_ok.id:
            OP.harness_wait(OP.ta_done.is_set, 2.0)
            time.sleep(0.005)
            return
        if slow_ok is not None and nid in waits_for:
            end = time.monotonic() + 0.3
            while time.monotonic() < end and waits_for[nid] not in holder["R"].H.raised:
                time.sleep(0.0005)
            return
        if slow_ok is not None and nid in side_ids:
            raise rec.InjectedError(f"side branch n{nid} fails")
        if slow_ok is not None and nid < slow_ok.id:
            # the failing source calls wait (bounded) until the slow call is in flight
            end = time.monotonic() + 0.5
            while time.monotonic() < end and slow_ok.id not in holder["R"].H.attempts:
                time.sleep(0.0005)
        with lock:
            order["n"] += 1
            idx = order["n"]
        if idx == max_errors + 1:
            OP.arm()
        elif idx > max_errors + 1 and slow_ok is None:
            OP.harness_wait(lambda: OP.ta_paused.is_set() or OP.ta_done.is_set(), 2.0)
        raise rec.InjectedError(f"failure #{idx} (n{nid})")

    desc = {"seed": seed, "n": ncalls, "W": W, "sched": sched, "perturb": "none", "delays": "none", "max_errors": max_errors}
    with OP:
        def before_run(R_):
            holder["R"] = R_
            if R_.hang_drv is not None and R_.hang_drv.thread is not None:
                OP.skip_native.add(R_.hang_drv.thread.native_id)

        R = plainrun.execute(desc, pre=pre, record_args=False, ir=ir, before_run=before_run)
    return R, OP, ir


def enumerate_fail_limit(desc):
    import hashlib

    me, W, sched, ncalls = desc["max_errors"], desc["W"], desc["sched"], desc.get("ncalls", 12)
    shape = desc.get("shape", "independent")

    def oracle(R):
        failed = len(R.H.raised)
        if failed > me + W:
            return f"{failed} calls failed with max_errors={me} and max_workers={W} (at most {me + W} may)"
        if R.exc is None:
            return "run returned normally although calls failed"
        return None

    R, OP, ir = run_fail_limit(me, None, W, sched, desc["seed"], ncalls, shape=shape)
    N = OP.count
    if N == 0:
        return {"status": "inconclusive", "detail": "error-limit preemption: the limit-crossing worker executed no monitored instruction"}
    bad = oracle(R)
    counters = {"preempt_errlimit_cases": 1, "preempt_errlimit_positions": 0, "preempt_errlimit_holds_others_went_on": 0, "preempt_errlimit_holds_in_critical_section": 0}
    points = set()
    witness = None
    if bad is None:
        for k in range(1, N + 1):
            R, OP, ir = run_fail_limit(me, k, W, sched, desc["seed"] + k, ncalls, shape=shape)
            counters["preempt_errlimit_positions"] += 1
            if OP.held_at is not None:
                points.add(f"{OP.held_at[0]}@{OP.held_at[1]}")
                counters["preempt_errlimit_holds_others_went_on" if len(R.H.raised) > me + 1 else "preempt_errlimit_holds_in_critical_section"] += 1
            bad = oracle(R)
            if bad:
                bad = f"[the worker whose failure crossed the limit held at its instruction #{k} of {N} ({OP.held_at}) until the rest of the process was quiescent; {sched}; {shape}] {bad}"
                witness = {"history": R.H.compact_history(120), "k": k, "held_at": OP.held_at}
                break
    res = {"status": "ok", "counters": counters, "sets": {"preempt_errlimit_points_held": sorted(points)}, "nontrivial": counters["preempt_errlimit_holds_others_went_on"] > 0,
           "sig": hashlib.sha1(f"errlimit|{me}|{W}|{sched}|{shape}".encode()).hexdigest()[:16], "sample": {"desc": desc, "positions_N": N}}
    if bad:
        res.update(status="violation", detail=bad, mechanism="limits-errors", witness=witness)
    return res


# ----------------------------------------------------------------------------------------------- release of results under preemption
def run_release(k, n_consumers, W, sched, seed, hold="quiescent", twice=False):
    """x -> c_1 .. c_n (consumers of x's result, all executing at the same time) -> tail (depends on all of them). TA = the worker of c_1; it
    returns first and is held at the k-th instruction it executes afterwards - in run_physical's own bookkeeping (dropping the bound call,
    whatever accounting of readers there is) as well as in the graph runner's - while the other consumers return and run their whole
    bookkeeping. When `tail` starts, every consumer of x has finished: x's result must be unreachable."""
    import gc
    import time

    from . import ir as irmod, plainrun

    ref = irmod.ref
    ir = irmod.IR()
    x = ir.add("call", fname="x")
    cons = [ir.add("call", fname=f"c{i}", args=[ref(x.id), ref(x.id)] if (twice and i == 0) else [ref(x.id)]) for i in range(n_consumers)]
    tail = ir.add("call", fname="tail")
    for c in cons:
        ir.deps.append((c.id, tail.id))
    ir.output = irmod.X("list", [ref(tail.id)])
    ir.meta["family"] = "preempt:release"
    OP = OnePreemption(k, n_consumers - 1, hold=hold, files=OnePreemption.FILES + ("run_physical.py",))
    holder = {}
    seen = {}
    a = cons[0].id
    others = {c.id for c in cons[1:]}

    def pre(nid, att):
        H = holder["R"].H
        if nid == a:
            end = time.monotonic() + 1.0
            while time.monotonic() < end:
                with H.lock:
                    started = sum(1 for c in cons if c.id in H.attempts)
                if started == len(cons):
                    break
                time.sleep(0.0002)
        elif nid in others:
            OP.wait_for_ta()
        elif nid == tail.id:
            gc.collect()
            wr = H.result_refs.get(x.id)
            seen["alive"] = wr is not None and wr() is not None
            seen["checked"] = wr is not None

    def post(nid, att, res):
        if nid == a:
            OP.arm()

    desc = {"seed": seed, "n": len(ir.nodes), "W": W, "sched": sched, "perturb": "none", "delays": "none"}
    with OP:
        def before_run(R_):
            holder["R"] = R_
            if R_.hang_drv is not None and R_.hang_drv.thread is not None:
                OP.skip_native.add(R_.hang_drv.thread.native_id)

        R = plainrun.execute(desc, pre=pre, post=post, record_args=False, track_results=True, ir=ir, before_run=before_run)
    return R, OP, ir, seen


def enumerate_release(desc):
    import hashlib

    nc, W, sched, twice = desc["consumers"], desc["W"], desc["sched"], desc.get("twice", False)

    def oracle(R, seen):
        if R.exc is not None:
            return f"run raised {R.exc!r}"
        if not seen.get("checked"):
            return None
        if seen.get("alive"):
            return "the result of x is still alive when `tail` starts although every call that consumes it has finished"
        return None

    R, OP, ir, seen = run_release(None, nc, W, sched, desc["seed"], twice=twice)
    N = OP.count
    if N == 0 or not seen.get("checked"):
        return {"status": "inconclusive", "detail": f"release preemption: nothing counted / checked (N={N}, {seen})"}
    bad = oracle(R, seen)
    counters = {"preempt_release_cases": 1, "preempt_release_positions": 0, "preempt_release_liveness_checks": 1, "preempt_release_holds_others_completed": 0}
    points = set()
    witness = None
    if bad is None:
        for k in range(1, N + 1):
            for hold in ("others", "quiescent"):
                R, OP, ir, seen = run_release(k, nc, W, sched, desc["seed"] + k, hold=hold, twice=twice)
                counters["preempt_release_positions"] += 1
                counters["preempt_release_liveness_checks"] += int(bool(seen.get("checked")))
                if OP.held_at is not None:
                    points.add(f"{OP.held_at[0]}@{OP.held_at[1]}")
                    counters["preempt_release_holds_others_completed"] += int(not OP.hold_expired)
                bad = oracle(R, seen)
                if bad:
                    bad = (f"[{nc} consumers of one result finish together; the worker of the first is held at its instruction #{k} of {N} ({OP.held_at}) while the "
                           f"others complete; W={W}, {sched}] {bad}")
                    witness = {"history": R.H.compact_history(80), "k": k, "held_at": OP.held_at}
                    break
            if bad:
                break
    res = {"status": "ok", "counters": counters, "sets": {"preempt_release_points_held": sorted(points)}, "nontrivial": counters["preempt_release_holds_others_completed"] > 0,
           "sig": hashlib.sha1(f"release|{nc}|{W}|{sched}|{twice}".encode()).hexdigest()[:16], "sample": {"desc": desc, "positions_N": N}}
    if bad:
        res.update(status="violation", detail=bad, mechanism="result-retained", witness=witness)
    return res


# ----------------------------------------------------------------------------------------------- the stale check under preemption
def run_stale_fanin(k, W, seed, older_first=True, hold="quiescent"):
    """A stored value z = f(a, b) over two sources; z is newer than a and OLDER than b, so it is out of date. The worker that asks for a's
    modified time (the older one) is held at the k-th instruction it executes afterwards in the stale check's bookkeeping (caching.py and the
    graph runner) while the other worker asks for b's and runs its whole bookkeeping. Whatever the interleaving, the run rebuilds z."""
    from . import ir as irmod, regmodel

    ref = irmod.ref
    rp = regmodel.RegPlan()
    ir = rp.ir
    a = ir.add("source", fname="src")
    b = ir.add("source", fname="src")
    for s_ in (a, b):
        rp.role[s_.id] = "psrc"
        rp.normalising[s_.id] = False
    z = ir.add("call", args=[ref(a.id), ref(b.id)], fname="fn0")
    rp.role[z.id] = "stored"
    rp.normalising[z.id] = False
    ir.meta["family"] = "preempt:stale_fanin"
    S = regmodel.Session(rp, seed)
    res, exc = S.run(None, W=1, hang_watch=False)
    if exc is not None:
        raise exc
    newer = b if older_first else a
    older = a if older_first else b
    S.src_version[newer.id] += 1
    S.stores[newer.id].set_content(irmod.Val(("src", newer.id), S.src_version[newer.id]))
    exp = S.expect(None, None)
    OP = OnePreemption(k, 1, hold=hold, files=OnePreemption.FILES + ("caching.py",))
    H = S.H
    older_name, newer_name = S.store_name[older.id], S.store_name[newer.id]

    def hook(kind, st):
        if kind != "mt":
            return
        if st.name == older_name:
            OP.arm()
        elif st.name == newer_name:
            OP.wait_for_ta(1.0)

    with OP:
        H.store_hook = hook
        try:
            res, exc = S.run(None, W=W, hang_watch=False)
        finally:
            H.store_hook = None
    return S, exp, OP, exc


def enumerate_stale_fanin(desc):
    import hashlib

    W, of = desc["W"], desc.get("older_first", True)

    def oracle(S, exp, exc):
        if exc is not None:
            return f"run raised {exc!r}"
        d = S.check_counts(exp)
        if d:
            return f"the stored value is older than one of its two sources, but: {d}"
        return None

    S, exp, OP, exc = run_stale_fanin(None, W, desc["seed"], of)
    N = OP.count
    if N == 0:
        return {"status": "inconclusive", "detail": "stale-check preemption: the worker that queried the older source executed no monitored instruction"}
    bad = oracle(S, exp, exc)
    counters = {"preempt_stale_cases": 1, "preempt_stale_positions": 0, "preempt_stale_holds_other_completed": 0}
    points = set()
    if bad is None:
        for k in range(1, N + 1):
            for hold in ("others", "quiescent"):
                S, exp, OP, exc = run_stale_fanin(k, W, desc["seed"] + k, of, hold=hold)
                counters["preempt_stale_positions"] += 1
                if OP.held_at is not None:
                    points.add(f"{OP.held_at[0]}@{OP.held_at[1]}")
                    counters["preempt_stale_holds_other_completed"] += int(not OP.hold_expired)
                bad = oracle(S, exp, exc)
                if bad:
                    bad = (f"[stale check of a fan-in: the worker that asked for the OLDER source's modified time held at its instruction #{k} of {N} ({OP.held_at}) "
                           f"while the other source's query completed; stale-check workers={W}] {bad}")
                    break
            if bad:
                break
    res = {"status": "ok", "counters": counters, "sets": {"preempt_stale_points_held": sorted(points)}, "nontrivial": counters["preempt_stale_holds_other_completed"] > 0,
           "sig": hashlib.sha1(f"stalefanin|{W}|{of}".encode()).hexdigest()[:16], "sample": {"desc": desc, "positions_N": N}}
    if bad:
        res.update(status="violation", detail=bad, mechanism="rebuild-set")
    return res


def run_stale_join_then(k, W, seed, hold="quiescent"):
    """Stale check of  a, b (sources) -> j = f(a, b) (not stored);  p = g() (stored, its value MISSING: it is rebuilt);  n = h(j, p) (stored, recent).
    The worker that asked for a's modified time is held at the k-th instruction of its bookkeeping while b's worker completes its own; p's query
    is slow (it outlasts that bookkeeping). Whatever the interleaving, n - downstream of the rebuilt p - is rebuilt in the same run."""
    from . import ir as irmod, regmodel

    ref = irmod.ref
    rp = regmodel.RegPlan()
    ir = rp.ir
    a = ir.add("source", fname="src")
    b = ir.add("source", fname="src")
    for s_ in (a, b):
        rp.role[s_.id] = "psrc"
        rp.normalising[s_.id] = False
    j = ir.add("call", args=[ref(a.id), ref(b.id)], fname="fn0")
    rp.role[j.id] = "plain"
    p = ir.add("call", args=[], fname="fn1")
    rp.role[p.id] = "stored"
    rp.normalising[p.id] = False
    n = ir.add("call", args=[ref(j.id), ref(p.id)], fname="fn2")
    rp.role[n.id] = "stored"
    rp.normalising[n.id] = False
    ir.meta["family"] = "preempt:stale_join_then"
    S = regmodel.Session(rp, seed)
    res, exc = S.run(None, W=1, hang_watch=False)
    if exc is not None:
        raise exc
    S.delete(p.id)
    exp = S.expect(None, None)
    OP = OnePreemption(k, 1, hold=hold, files=OnePreemption.FILES + ("caching.py",))
    H = S.H
    a_name, b_name, p_name, n_name = (S.store_name[x.id] for x in (a, b, p, n))
    n_seen = [False]

    def hook(kind, st):
        if kind != "mt":
            return
        if st.name == a_name:
            OP.arm()
        elif st.name == b_name:
            OP.wait_for_ta(1.0)
        elif st.name == n_name:
            with OP.cv:
                n_seen[0] = True
                OP.cv.notify_all()
        elif st.name == p_name:
            # a slow modified-time query: it is still under way when the bookkeeping of a's and b's workers is over (and a little longer)
            OP.harness_wait(OP.bookkeeping_over, 1.0)
            OP.harness_wait(lambda: n_seen[0], 0.03)

    with OP:
        H.store_hook = hook
        try:
            res, exc = S.run(None, W=W, hang_watch=False)
        finally:
            H.store_hook = None
    return S, exp, OP, exc, n_seen[0]


def enumerate_stale_join_then(desc):
    import hashlib

    W = desc["W"]

    def oracle(S, exp, exc):
        if exc is not None:
            return f"run raised {exc!r}"
        d = S.check_counts(exp)
        if d:
            return f"a stored value upstream (missing, rebuilt in this run) - the stored value downstream of it must be rebuilt in the same run, but: {d}"
        return None

    S, exp, OP, exc, _ = run_stale_join_then(None, W, desc["seed"])
    N = OP.count
    if N == 0:
        return {"status": "inconclusive", "detail": "stale-check preemption (join_then): the worker that queried source a executed no monitored instruction"}
    bad = oracle(S, exp, exc)
    counters = {"preempt_stale_join_cases": 1, "preempt_stale_join_positions": 0, "preempt_stale_join_holds_other_completed": 0}
    points = set()
    if bad is None:
        for k in range(1, N + 1):
            for hold in ("others", "quiescent"):
                S, exp, OP, exc, early = run_stale_join_then(k, W, desc["seed"] + k, hold=hold)
                counters["preempt_stale_join_positions"] += 1
                if OP.held_at is not None:
                    points.add(f"{OP.held_at[0]}@{OP.held_at[1]}")
                    counters["preempt_stale_join_holds_other_completed"] += int(not OP.hold_expired)
                bad = oracle(S, exp, exc)
                if bad:
                    bad = (f"[stale check, sources a, b -> j (not stored); n = h(j, p) stored, p stored and missing with a slow modified-time query: the worker that asked for a's "
                           f"modified time held at its instruction #{k} of {N} ({OP.held_at}) while b's worker completed its bookkeeping; stale-check workers={W}; "
                           f"n examined before p's query had returned: {early}] {bad}")
                    break
            if bad:
                break
    res = {"status": "ok", "counters": counters, "sets": {"preempt_stale_join_points_held": sorted(points)}, "nontrivial": counters["preempt_stale_join_holds_other_completed"] > 0,
           "sig": hashlib.sha1(f"stalejointhen|{W}".encode()).hexdigest()[:16], "sample": {"desc": desc, "positions_N": N}}
    if bad:
        res.update(status="violation", detail=bad, mechanism="rebuild-set")
    return res
