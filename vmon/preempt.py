"""Deterministic single-preemption enumeration inside the engine's node-processing code (complements the random perturber).

Scenario: a set P of calls that are all predecessors of one or more join nodes runs on |P| workers. One of them, `a`, returns
first; the worker TA that ran it goes on into the engine's bookkeeping (process_node: successor loop / failure handling, queue.put).
At the k-th instruction boundary TA executes there (sys.monitoring INSTRUCTION events on the engine's code objects, discovered by
file), TA is *held*; the other calls of P - which were waiting inside their own functions for exactly that moment - now return, and
their workers run their complete bookkeeping; then TA is resumed. Enumerating k over every instruction TA executes between the end of
`a` and the end of its process_node realises the schedule "preempted at instruction k, the others run to completion" for EVERY k,
i.e. every place where a lock might be missing or released too early, not a random sample of them.

If TA is held while it owns a lock the others need (inside a critical section), they block, the bounded wait expires and TA goes on:
that k is equivalent to "no preemption" - waits only shape the schedule, no verdict depends on them.
"""
import sys
import threading

from . import perturb

mon = sys.monitoring
E = mon.events
TOOL = 3


class OnePreemption:
    def __init__(self, k, n_others, hold_timeout=1.0, hold="quiescent"):
        self.hold = hold  # "others": until the other predecessors' workers finished their bookkeeping; "quiescent": until nothing else can move
        self.k = k  # position to hold TA at (None = just count)
        self.n_others = n_others
        self.hold_timeout = hold_timeout
        self.ta_tid = None
        self.count = 0
        self.positions = []  # (code name, offset) per position, for the witness / coverage
        self.ta_paused = threading.Event()
        self.ta_done = threading.Event()
        self.others_done = 0
        self.cv = threading.Condition()
        self.held_at = None
        self.hold_expired = False  # the others could not finish while TA was held (they need a lock TA owns): k lies inside a critical section
        self.other_native = set()
        self.finished_native = set()
        self.skip_native = set()  # kernel threads that do not belong to the run (harness watchers)
        self.codes = [c for c in perturb.discover_codes() if c.co_filename.endswith(("run_function_on_graph.py", "scheduler.py", "queue.py"))]
        self.pn = [c for c in self.codes if c.co_name == "process_node"]
        self.active = False

    # -- called by the harness from inside call `a`, just before it returns (on TA)
    def arm(self):
        self.ta_tid = threading.get_ident()
        self.count = 0

    # -- the other calls of P wait here (inside their own function) until TA is held or has finished its bookkeeping
    def wait_for_ta(self, timeout=2.0):
        with self.cv:
            self.other_native.add(threading.get_native_id())
            self.cv.wait_for(lambda: self.ta_paused.is_set() or self.ta_done.is_set(), timeout)

    def _instr(self, code, offset):
        if self.ta_tid is None or threading.get_ident() != self.ta_tid or self.ta_done.is_set():
            return
        self.count += 1
        if len(self.positions) < 5000:
            self.positions.append((code.co_name, offset))
        if self.k is not None and self.count == self.k and not self.ta_paused.is_set():
            self.held_at = (code.co_name, offset)
            from . import quiesce

            with self.cv:
                self.ta_paused.set()
                self.cv.notify_all()
                import os as _os
                import time as _t

                me = threading.get_native_id()
                skip = self.skip_native | {me}
                end = _t.monotonic() + self.hold_timeout
                stable = 0
                prev = None
                # TA stays held until the REST of the process is quiescent: every other kernel thread (the other predecessors' workers,
                # idle workers that picked up a successor TA has just published, the caller of run) is parked in an untimed futex wait,
                # with unchanged context-switch counters in consecutive probes. So "everything that can happen while TA is preempted
                # here" has happened - including a child of TA running to completion - or the others are blocked on a lock TA owns.
                while _t.monotonic() < end:
                    self.cv.wait(0.002)
                    if self.hold == "others" and self.others_done >= self.n_others:
                        break
                    vec = []
                    ok = True
                    try:
                        tids = [int(t) for t in _os.listdir("/proc/self/task")]
                    except OSError:
                        tids = []
                    for t in tids:
                        if t in skip:
                            continue
                        parked, cs = quiesce.probe(t)
                        if not parked:
                            ok = False
                            break
                        vec.append((t, cs))
                    if ok and vec and vec == prev:
                        stable += 1
                        if stable >= 2:
                            break
                    else:
                        stable = 0
                    prev = vec if ok else None
                self.hold_expired = self.others_done < self.n_others

    def _ret(self, code, offset, retval):
        if code.co_name != "process_node":
            return
        tid = threading.get_ident()
        with self.cv:
            if tid == self.ta_tid:
                if not self.ta_done.is_set() and self.count > 0:
                    self.ta_done.set()
            elif self.ta_paused.is_set():
                self.others_done += 1
                self.finished_native.add(threading.get_native_id())
            self.cv.notify_all()

    def __enter__(self):
        mon.use_tool_id(TOOL, "vmon-preempt")
        mon.register_callback(TOOL, E.INSTRUCTION, self._instr)
        mon.register_callback(TOOL, E.PY_RETURN, self._ret)
        for c in self.codes:
            mon.set_local_events(TOOL, c, E.INSTRUCTION | (E.PY_RETURN if c.co_name == "process_node" else 0))
        mon.set_events(TOOL, 0)
        self.active = True
        return self

    def __exit__(self, *a):
        for c in self.codes:
            try:
                mon.set_local_events(TOOL, c, 0)
            except Exception:
                pass
        for ev in (E.INSTRUCTION, E.PY_RETURN):
            mon.register_callback(TOOL, ev, None)
        mon.free_tool_id(TOOL)
        self.active = False
        return False


# ----------------------------------------------------------------------------------------------- scenarios
SHAPES = ["join2", "join3", "two_joins", "hub", "hub_chain", "mixed", "edge_kinds", "join_then"]


def build_ir(shape):
    """Returns (ir, P, slow): P = the calls that finish 'together' (TA is one of them), slow = ids of deliberately slow calls."""
    from . import ir as irmod

    ref = irmod.ref
    ir = irmod.IR()
    slow = []
    if shape in ("join2", "join3"):
        P = [ir.add("call", fname=f"p{i}") for i in range(2 if shape == "join2" else 3)]
        j = ir.add("call", fname="join", args=[ref(p.id) for p in P])
        out = [j.id]
    elif shape == "two_joins":
        P = [ir.add("call", fname=f"p{i}") for i in range(2)]
        j1 = ir.add("call", fname="join", args=[ref(P[0].id), ref(P[1].id)])
        j2 = ir.add("call", fname="join", args=[ref(P[1].id)], kwargs=[("k", ref(P[0].id))])
        out = [j1.id, j2.id]
    elif shape in ("hub", "hub_chain"):
        P = [ir.add("call", fname=f"p{i}") for i in range(2 if shape == "hub" else 3)]
        lit = ir.add("lit", value="hub")
        for p in P:
            ir.deps.append((p.id, lit.id))
        e = ir.add("call", fname="slow")
        slow.append(e.id)
        d = ir.add("call", fname="join", args=[ref(lit.id), ref(e.id)])  # the literal is an argument: not pruned
        out = [d.id]
        if shape == "hub_chain":
            d2 = ir.add("call", fname="after", args=[ref(d.id)])
            out = [d2.id]
    elif shape == "mixed":
        P = [ir.add("call", fname=f"p{i}") for i in range(2)]
        s1 = ir.add("call", fname="single", args=[ref(P[0].id)])  # single-parent successor: enqueued directly
        j = ir.add("call", fname="join", args=[ref(P[0].id), ref(P[1].id)])
        s2 = ir.add("call", fname="single", args=[ref(P[1].id)])
        out = [s1.id, j.id, s2.id]
    elif shape == "edge_kinds":
        P = [ir.add("call", fname=f"p{i}") for i in range(3)]
        j = ir.add("call", fname="join", args=[ref(P[0].id), ref(P[0].id)], kwargs=[("k", ref(P[1].id))])  # parallel edges from p0
        ir.deps.append((P[2].id, j.id))
        ir.deps.append((P[0].id, j.id))
        out = [j.id]
    elif shape == "join_then":
        P = [ir.add("call", fname=f"p{i}") for i in range(2)]
        j = ir.add("call", fname="join", args=[ref(p.id) for p in P])
        e = ir.add("call", fname="slow")
        slow.append(e.id)
        d = ir.add("call", fname="after", args=[ref(j.id), ref(e.id)])
        out = [d.id]
    else:
        raise ValueError(shape)
    ir.output = irmod.X("list", [ref(o) for o in out])
    ir.meta["family"] = "preempt:" + shape
    return ir, [p.id for p in P], slow


def run_once(shape, a_index, k, W_extra, sched, seed, hold="quiescent"):
    """One run with TA = the worker that runs P[a_index], held at position k (None: count only). Returns (R, OP, ir, P)."""
    import time

    from . import plainrun

    ir, P, slow = build_ir(shape)
    a = P[a_index]
    OP = OnePreemption(k, len(P) - 1, hold=hold)
    holder = {}

    def pre(nid, att):
        H = holder["R"].H
        if nid == a:
            end = time.monotonic() + 1.0
            while time.monotonic() < end:
                with H.lock:
                    started = sum(1 for p in P if p in H.attempts)
                if started == len(P):
                    break
                time.sleep(0.0002)
        elif nid in P:
            OP.wait_for_ta()
        elif nid in slow:
            time.sleep(0.01)

    def post(nid, att, res):
        if nid == a:
            OP.arm()

    desc = {"seed": seed, "n": len(ir.nodes), "W": len(P) + W_extra, "sched": sched, "perturb": "none", "delays": "none"}
    with OP:
        def before_run(R_):
            holder["R"] = R_
            if R_.hang_drv is not None and R_.hang_drv.thread is not None:
                OP.skip_native.add(R_.hang_drv.thread.native_id)

        R = plainrun.execute(desc, pre=pre, post=post, record_args=False, ir=ir, before_run=before_run)
    return R, OP, ir, P


def gen_descs(tier, seed, prop):
    from . import env

    out = []
    shapes = SHAPES
    for shape in shapes:
        nP = {"join2": 2, "join3": 3, "two_joins": 2, "hub": 2, "hub_chain": 3, "mixed": 2, "edge_kinds": 3, "join_then": 2}[shape]
        for a_index in range(nP):
            for sched in ("default", "random"):
                if tier == "quick" and (a_index + (sched == "random") + len(shape)) % 2:
                    continue  # quick tier: half of the combinations; thorough: all, with two pool sizes
                for W_extra in ((1,) if tier == "quick" else (0, 2)):
                    out.append({"seed": env.seed_for(seed, prop, tier, "preempt1", shape, a_index, sched, W_extra), "mode": "preempt1", "shape": shape,
                                "a_index": a_index, "sched": sched, "W_extra": W_extra, "n": 4, "W": nP + W_extra, "perturb": "none"})
    return out


def enumerate_case(desc, oracle):
    """oracle(R, ir) -> problem text or None. Returns a result dict for the runner."""
    import hashlib

    R, OP, ir, P = run_once(desc["shape"], desc["a_index"], None, desc["W_extra"], desc["sched"], desc["seed"])
    N = OP.count
    if N == 0:
        return {"status": "inconclusive", "detail": f"preemption enumeration: the worker of n{P[desc['a_index']]} executed no monitored instruction after its call ended"}
    bad = oracle(R, ir)
    counters = {"preempt_cases": 1, "preempt_positions_enumerated": 0, "preempt_holds_inside_critical_sections": 0, "preempt_holds_others_completed": 0,
                "preempt_position_never_reached": 0}
    points = set()
    witness = None
    if bad is None:
        for k, hold in [(k, h) for k in range(1, N + 1) for h in ("others", "quiescent")]:
            # two lengths of the preemption at every k: TA resumes as soon as the other predecessors' workers are done with their
            # bookkeeping (their successors may still be running), or only when nothing else in the process can move any more
            R, OP, ir, P = run_once(desc["shape"], desc["a_index"], k, desc["W_extra"], desc["sched"], desc["seed"] + k, hold=hold)
            counters["preempt_positions_enumerated"] += 1
            counters[f"preempt_holds_{hold}"] = counters.get(f"preempt_holds_{hold}", 0) + 1
            if OP.held_at is None:
                counters["preempt_position_never_reached"] += 1
            else:
                points.add(f"{OP.held_at[0]}@{OP.held_at[1]}")
                if OP.hold_expired:
                    counters["preempt_holds_inside_critical_sections"] += 1
                else:
                    counters["preempt_holds_others_completed"] += 1
            bad = oracle(R, ir)
            if bad:
                bad = (f"[worker of n{P[desc['a_index']]} held at its instruction #{k} of {N} after the call ended ({OP.held_at}) until "
                       f"{'the other predecessors had finished their bookkeeping' if hold == 'others' else 'the rest of the process was quiescent'}; "
                       f"shape {desc['shape']}, {desc['sched']}, W={desc['W']}] {bad}")
                witness = {"plan": ir.describe(40), "history": R.H.compact_history(200), "k": k, "held_at": OP.held_at, "positions": OP.positions[:200]}
                break
    res = {"status": "ok", "counters": counters, "sets": {"preempt_points_held": sorted(points)}, "nontrivial": counters["preempt_holds_others_completed"] > 0,
           "sig": hashlib.sha1(f"preempt1|{desc['shape']}|{desc['a_index']}|{desc['sched']}|{desc['W_extra']}".encode()).hexdigest()[:16],
           "sample": {"desc": desc, "positions_N": N, "held_points": sorted(points)[:12]}}
    if bad:
        res.update(status="violation", detail=bad, mechanism="preempt1", witness=witness)
    return res
