"""Execute one generated registry-free plan on the real engine and hand the history to the oracles."""
import random
import sys
import threading
import time

from . import ir as irmod
from . import perturb as pert
from . import rec


class Run:
    pass


def pick_W(rng, n):
    return rng.choice([1, 2, 3, 4, 8, 16, n + 3])


def _hang_watch(H, desc, on_hang):
    """Cheap logical-deadlock watcher (50 ms sampling of kernel thread states): a run that can never finish is reported at once
    (by default as *inconclusive* for the property at hand - C07 owns the hang verdict) instead of waiting for the wall-clock watchdog."""
    from . import abort, quiesce

    if not quiesce.available():
        return None

    def on_deadlock(stacks):
        if on_hang is not None:
            on_hang(stacks)
        main = stacks.get("MainThread") or []
        tail = [s.split(":")[-1] + "@" + s.split(":")[0] for s in main[-4:]]
        if getattr(H, "interrupt_sent", False) and "shutdown@run_function_on_graph.py" in tail and "put@queue.py" in tail and tail[-1].startswith("__enter__@threading"):
            # the calling thread was interrupted by this harness and now blocks in shutdown() -> Queue.put() on the queue mutex: the shape of the
            # open known finding D6 (C17 decides whether it is that finding or something else); for every other property the case says nothing
            abort.abort_with({"status": "ok", "nontrivial": False, "counters": {"cases_dropped_hang_shaped_like_known_finding_D6": 1}})
        abort.abort_with({"status": "inconclusive", "mechanism": "hang",
                          "detail": "logical deadlock: every engine thread (incl. the caller of run) is parked in an untimed wait, no call is executing, "
                                    "run has not returned (the hang itself is C07's verdict)",
                          "witness": {"stacks": stacks, "history": H.compact_history(300), "desc": desc}})

    drv = quiesce.WaveDriver(random.Random(0), on_deadlock=on_deadlock, period=0.05)
    drv.open = True
    drv.start()
    return drv


def execute(desc, pre=None, post=None, progress=None, record_args=True, track_results=False, ir=None, extra_run_kwargs=None, before_run=None,
            hang_watch=True, on_hang=None):
    """desc keys: seed, n, family, W, sched, perturb, rich, max_errors, retry, fail (list of skeleton idx -> kind)."""
    import uberjob

    seed = desc["seed"]
    rng = random.Random(seed)
    if ir is None:
        ir = irmod.gen_ir(rng, desc.get("n", 10), family=desc.get("family"), rich=desc.get("rich", True), cfg=desc.get("cfg"))
    H = rec.Harness(ir, record_args=record_args)
    H.track_results = track_results
    plan = uberjob.Plan()
    out = irmod.build(ir, plan, H.make_fn)
    W = desc.get("W") or 1
    sched = desc.get("sched")
    drng = random.Random(seed ^ 0x5EED)
    delays = {}
    dmode = desc.get("delays", "mixed")
    for nid in ir.harness_calls():
        r = drng.random()
        if dmode == "none" or r < 0.5:
            delays[nid] = None
        elif r < 0.8:
            delays[nid] = 0.0
        else:
            delays[nid] = drng.uniform(0.00001, 0.0003)

    fail = choose_failing(ir, desc)

    def default_pre(nid, att):
        d = delays.get(nid)
        if d is not None:
            time.sleep(d)
        if pre is not None:
            pre(nid, att)
        f = fail.get(nid)
        if f is not None and att <= f[1]:
            raise make_exc(f[0], nid, att)

    H.pre = default_pre
    H.post = post
    random.seed(seed & 0xFFFFFFFF)  # the engine's 'random' scheduler draws from the global RNG
    kw = dict(output=out, max_workers=W, progress=progress, scheduler=sched)
    if "max_errors" in desc:
        kw["max_errors"] = desc["max_errors"]
    if desc.get("retry") is not None:
        kw["retry"] = desc["retry"]
    if extra_run_kwargs:
        kw.update(extra_run_kwargs)
    R = Run()
    R.ir, R.H, R.plan, R.out_spec, R.desc = ir, H, plan, out, desc
    R.result, R.exc = None, None
    R.fail = fail
    R.kw = kw
    drv = _hang_watch(H, desc, on_hang) if hang_watch else None
    R.hang_drv = drv
    if before_run is not None:
        before_run(R)
    before = rec.thread_census()
    P = pert.make(seed, desc.get("perturb", "none"))
    try:
        with P:
            try:
                R.result = uberjob.run(plan, **kw)
            except BaseException as e:  # noqa
                R.exc = e
    finally:
        if drv is not None:
            drv.run_done = True
            drv.stop()
    R.seq_at_return = H.seq
    R.leaked = rec.new_threads(before)
    R.in_flight_at_return = H.in_flight
    R.perturb = P
    return R


class FalsyError(Exception):
    """an exception instance whose truth value is False (it has a length of 0): `if exc:` is not `if exc is not None:`"""

    def __len__(self):
        return 0


class FalsyBase(BaseException):
    def __bool__(self):
        return False


def _listargs(msg):
    """an exception whose args hold unhashable values (a list of offending rows, a dict of context)"""
    return rec.InjectedError(msg, [3, 17], {"column": "x"})


class QuotaError(Exception):
    """an application exception whose constructor signature is not its args (it formats a message from two fields): type(e)(*e.args) raises TypeError,
    so it cannot be copied, pickled or re-created - only passed on as the object it is"""

    def __init__(self, user, limit):
        super().__init__(f"{user} is over the limit of {limit}")
        self.user, self.limit = user, limit


def _ctorargs(msg):
    return QuotaError(msg, 3)


EXC_KINDS = {
    "ctorargs": _ctorargs,
    "listargs": _listargs,
    "falsy": FalsyError,
    "falsybase": FalsyBase,
    "exc": rec.InjectedError,
    "base": rec.InjectedBase,
    "kbi": KeyboardInterrupt,
    "sysexit": SystemExit,
    "genexit": GeneratorExit,
    "value": ValueError,
    "cancel": __import__("asyncio").CancelledError,
}


def make_exc(kind, nid, att):
    if kind == "callerr":
        # what a call that runs a nested uberjob.run raises when the inner plan fails: a CallError with its own cause
        import uberjob
        from uberjob.graph import Call

        e = uberjob.CallError(Call(len))
        e.__cause__ = ValueError(f"inner failure n{nid} attempt {att}")
        return e
    return EXC_KINDS[kind](f"injected n{nid} attempt {att}")


def choose_failing(ir, desc):
    """desc['faults'] = {'p': prob per call, 'kinds': [...], 'flaky': bool, 'count': exact number (optional)}"""
    f = desc.get("faults")
    if not f:
        return {}
    rng = random.Random(desc["seed"] ^ 0xFA17)
    calls = ir.harness_calls()
    if f.get("among") is not None:
        calls = [c for c in calls if c in set(f["among"])]
    if f.get("count") is not None:
        chosen = rng.sample(calls, min(len(calls), f["count"]))
    else:
        chosen = [c for c in calls if rng.random() < f.get("p", 0.2)]
        if not chosen and calls and f.get("at_least_one", True):
            chosen = [rng.choice(calls)]
    out = {}
    for c in chosen:
        kind = rng.choice(f.get("kinds", ["exc"]))
        j = rng.randint(1, f.get("max_flaky", 3)) if f.get("flaky") else 10**9
        out[c] = (kind, j)
    return out


def perturb_stats(R, counters, sets):
    P = R.perturb
    counters["perturb_events"] = counters.get("perturb_events", 0) + P.events
    counters["perturb_yields"] = counters.get("perturb_yields", 0) + P.yields
    sp = _new_switch_points(P.switch_points)
    if sp:
        sets.setdefault("preemption_points_observed", []).extend(sp)


_seen_sp = set()


def _new_switch_points(points):
    out = []
    for p in points:
        if p not in _seen_sp:
            _seen_sp.add(p)
            out.append(f"{p[0]}@{p[1]}")
    return out
