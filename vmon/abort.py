"""Lets a monitor thread report a verdict and leave when the main thread is stuck inside uberjob.run (a hang)."""
import os
import threading

_lock = threading.Lock()
_emit = None


def set_emitter(f):
    global _emit
    _emit = f


def abort_with(res):
    with _lock:
        if _emit is not None:
            res = dict(res)
            res["taint"] = True
            _emit(res)
        os._exit(0)
