"""vmon - runtime monitors for twosigma/uberjob (see /verif/DESIGN.md)."""
