"""Parent side: fan cases out over worker subprocesses, aggregate, write evidence, decide the verdict.

A check module (vmon/checks/cNN.py) provides
    ID, LEVEL, RULE, ASSUMPTIONS
    gen_cases(tier, seed) -> list of JSON-able case descriptors
    run_case(desc) -> result dict (executed in a worker process, main thread)
    finalize(agg, tier) -> optional list of "inconclusive" reasons (monitor never reached ...)
Result dict keys:
    status: "ok" | "violation" | "inconclusive"
    detail: str, witness: dict (violation), mechanism: str (classifier key for known findings)
    sig: str (case signature), nontrivial: bool
    counters: {name: int} (summed), sets: {name: [str]} (unioned), sample: any
"""
import collections
import importlib
import json
import os
import queue
import select
import signal
import subprocess
import sys
import threading
import time

from . import env

WATCHDOG = {"quick": 90.0, "thorough": 300.0}
RECYCLE_AFTER = 150


class WorkerProc:
    def __init__(self, check_id, slot, logdir):
        self.check_id = check_id
        self.slot = slot
        self.logpath = os.path.join(logdir, f"worker-{check_id}-{slot}.log")
        self.proc = None
        self.buf = b""
        self.served = 0

    def start(self):
        e = dict(os.environ)
        e["PYTHONDONTWRITEBYTECODE"] = "1"
        e.setdefault("PYTHONHASHSEED", "0")
        e["PYTHONPATH"] = env.SRC + os.pathsep + env.VERIF
        self.log = open(self.logpath, "ab")
        self.proc = subprocess.Popen(
            [env.PYTHON, "-B", "-u", "-m", "vmon.worker", self.check_id],
            stdin=subprocess.PIPE,
            stdout=subprocess.PIPE,
            stderr=self.log,
            cwd=env.VERIF,
            env=e,
        )
        self.buf = b""
        self.served = 0

    def stop(self, hard=False):
        p = self.proc
        self.proc = None
        if p is None:
            return
        try:
            if not hard:
                try:
                    p.stdin.close()
                except OSError:
                    pass
                try:
                    p.wait(timeout=3)
                except subprocess.TimeoutExpired:
                    hard = True
            if hard:
                p.kill()
                p.wait()
        finally:
            for f in (p.stdin, p.stdout):
                try:
                    f.close()
                except Exception:
                    pass
            try:
                self.log.close()
            except Exception:
                pass

    def _readline(self, timeout):
        fd = self.proc.stdout.fileno()
        deadline = time.monotonic() + timeout
        while b"\n" not in self.buf:
            left = deadline - time.monotonic()
            if left <= 0:
                return None
            r, _, _ = select.select([fd], [], [], min(left, 1.0))
            if r:
                chunk = os.read(fd, 1 << 16)
                if not chunk:
                    return b""  # EOF: worker died
                self.buf += chunk
        line, self.buf = self.buf.split(b"\n", 1)
        return line

    def run_case(self, idx, desc, timeout):
        if self.proc is None or self.proc.poll() is not None or self.served >= RECYCLE_AFTER:
            self.stop()
            self.start()
        msg = (json.dumps({"i": idx, "desc": desc}) + "\n").encode()
        try:
            self.proc.stdin.write(msg)
            self.proc.stdin.flush()
        except OSError:
            self.stop(hard=True)
            return {"status": "inconclusive", "detail": "worker pipe broken before case"}
        line = self._readline(timeout)
        self.served += 1
        if line is None:
            # watchdog: ask for stacks, then kill. Inconclusive, never a violation.
            try:
                self.proc.send_signal(signal.SIGUSR1)
                time.sleep(0.3)
            except Exception:
                pass
            self.stop(hard=True)
            return {
                "status": "inconclusive",
                "detail": f"wall-clock watchdog ({timeout:.0f}s) fired; stacks in {self.logpath}",
            }
        if line == b"":
            rc = self.proc.poll()
            self.stop(hard=True)
            return {"status": "inconclusive", "detail": f"worker died (rc={rc}); see {self.logpath}"}
        try:
            res = json.loads(line)["res"]
        except Exception as ex:  # pragma: no cover
            self.stop(hard=True)
            return {"status": "inconclusive", "detail": f"bad worker reply: {ex!r}"}
        if res.get("taint"):
            self.stop(hard=True)
        return res


def load_known_findings():
    p = os.path.join(env.VERIF, "known_findings.json")
    try:
        with open(p) as f:
            return json.load(f).get("findings", [])
    except FileNotFoundError:
        return []


class Agg:
    def __init__(self):
        self.evaluations = 0
        self.counters = collections.Counter()
        self.sets = collections.defaultdict(set)
        self.sigs = set()
        self.samples = []
        self.violations = []
        self.known = []
        self.inconclusive = []

    def add(self, idx, desc, res, open_mechs):
        self.evaluations += 1
        for k, v in (res.get("counters") or {}).items():
            self.counters[k] += v
        for k, v in (res.get("sets") or {}).items():
            self.sets[k].update(v)
        if res.get("nontrivial") and res.get("sig") is not None:
            self.sigs.add(res["sig"])
        if res.get("sample") is not None and len(self.samples) < 4:
            self.samples.append(res["sample"])
        st = res.get("status")
        if st == "violation":
            mech = res.get("mechanism")
            if mech and mech in open_mechs:
                self.known.append((idx, desc, res))
            else:
                self.violations.append((idx, desc, res))
        elif st == "inconclusive":
            self.inconclusive.append((idx, desc, res))


def run_check(check_id, tier, seed, replay=None, limit=None):
    t0 = time.time()
    mod = importlib.import_module(f"vmon.checks.{check_id.lower()}")
    os.makedirs(os.path.join(env.VERIF, "evidence"), exist_ok=True)
    logdir = os.path.join(env.VERIF, "scratch", "logs")
    os.makedirs(logdir, exist_ok=True)
    known = [k for k in load_known_findings() if k.get("property") == check_id]
    open_mechs = {k["mechanism"]: k for k in known if k.get("status") == "open"}

    if replay:
        with open(replay) as f:
            rp = json.load(f)
        # wave-driven / fault-indexed cases replay deterministically; perturbation-driven ones depend on OS timing,
        # so the case is re-executed several times and the reproduction rate is printed. The stored witness stands on its own.
        repeats = int(os.environ.get("VERIF_REPLAY_REPEATS", getattr(mod, "REPLAY_REPEATS", 40)))
        cases = [rp["desc"]] * repeats
        tier = rp.get("tier", tier)
        print(f"replaying {replay}: recorded verdict: {rp.get('result', {}).get('detail', '')[:300]}")
    else:
        cases = list(mod.gen_cases(tier, seed))
        if limit:
            cases = cases[:limit]
    n = len(cases)
    timeout = float(os.environ.get("VERIF_WATCHDOG", WATCHDOG.get(tier, 90.0)))
    timeout = getattr(mod, "WATCHDOG", {}).get(tier, timeout)
    # validation helpers (mutation sweeps against scratch copies; never set by MANIFEST commands): cap the watchdog and stop
    # handing out cases once enough violations / watchdog firings were collected
    stop_after = int(os.environ.get("VERIF_STOP_AFTER", "0")) if "VERIF_REPO" in os.environ else 0
    if "VERIF_REPO" in os.environ and os.environ.get("VERIF_WATCHDOG_CAP"):
        timeout = min(timeout, float(os.environ["VERIF_WATCHDOG_CAP"]))

    work = queue.Queue()
    for i, d in enumerate(cases):
        work.put((i, d))
    agg = Agg()
    agg_lock = threading.Lock()
    njobs = min(env.jobs(), max(1, n))
    njobs = min(njobs, getattr(mod, "MAX_JOBS", njobs))

    wd = {"fired": 0, "skipped": 0}

    def slot_main(slot):
        wp = WorkerProc(check_id, slot, logdir)
        try:
            while True:
                try:
                    i, d = work.get_nowait()
                except queue.Empty:
                    return
                if stop_after and (len(agg.violations) >= stop_after or len(agg.inconclusive) >= max(300, 8 * stop_after)):
                    continue
                if wd["fired"] >= 24:
                    # the tree under test hangs or kills workers case after case: stop burning watchdog periods, the run is inconclusive
                    wd["skipped"] += 1
                    continue
                res = wp.run_case(i, d, timeout)
                env_fail = res.get("status") == "inconclusive" and res.get("detail", "").startswith(("wall-clock watchdog", "worker died", "worker pipe"))
                if env_fail:
                    with agg_lock:
                        wd["fired"] += 1
                if env_fail and wd["fired"] <= 6:
                    # environmental (load, interpreter quirks): re-execute once in a fresh worker before reporting it
                    first = res
                    res = wp.run_case(i, d, timeout)
                    res.setdefault("counters", {})["cases_reexecuted_after_watchdog"] = 1
                    if res.get("status") == "inconclusive":
                        res["detail"] = f"{res.get('detail')} (second attempt; first: {first.get('detail')})"
                with agg_lock:
                    agg.add(i, d, res, open_mechs)
        finally:
            wp.stop()

    threads = [threading.Thread(target=slot_main, args=(s,)) for s in range(njobs)]
    for t in threads:
        t.start()
    for t in threads:
        t.join()

    reasons = []
    try:
        reasons = list(mod.finalize(agg, tier) or [])
    except Exception as ex:
        reasons = [f"finalize failed: {ex!r}"]
    if replay or (limit and "VERIF_REPO" in os.environ):
        reasons = []  # truncated validation runs: the "monitor reached often enough" thresholds are sized for full tiers
    for i, d, r in agg.inconclusive[:20]:
        reasons.append(f"case {i}: {r.get('detail')}")
    if wd["skipped"]:
        reasons.append(f"{wd['fired']} cases ended in the wall-clock watchdog or killed their worker; the remaining {wd['skipped']} cases were not executed")

    # ---- report
    wall = time.time() - t0
    validation = "VERIF_REPO" in os.environ  # runs against a scratch copy never touch the real evidence / replays
    replay_dir = os.path.join(env.VERIF, "scratch", "validation-replays") if validation else os.path.join(env.VERIF, "replays")
    vio_lines = []
    if agg.violations:
        os.makedirs(replay_dir, exist_ok=True)
    for i, d, r in agg.violations[:25]:
        path = os.path.join(replay_dir, f"{check_id}-{seed}-{i}.json")
        with open(path, "w") as f:
            json.dump(
                {"property": check_id, "tier": tier, "seed": seed, "case": i, "desc": d, "result": r},
                f, indent=1, default=str,
            )
        vio_lines.append(f"VIOLATION property={check_id} replay={path}")
        print(f"  case {i}: {r.get('detail')}")
    seen_mech = set()
    for i, d, r in agg.known:
        m = r.get("mechanism")
        if m in seen_mech:
            continue
        seen_mech.add(m)
        print(f"KNOWN-FINDING: property={check_id} {open_mechs[m].get('what', m)} [mechanism={m}; e.g. case {i}: {r.get('detail')}]")

    coverage = {
        "evaluations": agg.evaluations,
        "distinct_nontrivial": len(agg.sigs),
        "rule": getattr(mod, "RULE", ""),
        "samples": agg.samples or [{"note": "no sample produced"}],
        "monitor_counters": dict(sorted(agg.counters.items())),
        "distinct_sets": {k: len(v) for k, v in sorted(agg.sets.items())},
        "set_members": {k: sorted(map(str, v))[:60] for k, v in sorted(agg.sets.items()) if len(v) <= 60},
        "inconclusive_cases": len(agg.inconclusive),
        "known_finding_witnesses": len(agg.known),
        "workers": njobs,
    }
    extra = getattr(mod, "coverage_extra", None)
    if extra:
        try:
            coverage.update(extra(agg, tier) or {})
        except Exception as ex:  # pragma: no cover
            coverage["coverage_extra_error"] = repr(ex)
    evidence = {
        "property_id": check_id,
        "tier": tier,
        "seed": seed,
        "level": mod.LEVEL,
        "coverage": coverage,
        "assumptions": list(getattr(mod, "ASSUMPTIONS", [])),
        "wall_s": round(wall, 2),
        "violations": len(agg.violations),
    }
    if not replay:
        ev_dir = os.path.join(env.VERIF, "scratch", "validation-evidence") if validation else os.path.join(env.VERIF, "evidence")
        os.makedirs(ev_dir, exist_ok=True)
        ev_path = os.path.join(ev_dir, f"{check_id}.json")
        tmp = ev_path + f".tmp{os.getpid()}"
        with open(tmp, "w") as f:
            json.dump(evidence, f, indent=1, default=str, sort_keys=True)
        os.replace(tmp, ev_path)
        _validate_evidence(ev_path, reasons)

    print(
        f"[{check_id}] tier={tier} seed={seed} cases={agg.evaluations} distinct_nontrivial={len(agg.sigs)} "
        f"violations={len(agg.violations)} known={len(agg.known)} inconclusive={len(agg.inconclusive)} wall={wall:.1f}s"
    )
    for k, v in sorted(agg.counters.items()):
        print(f"    {k} = {v}")
    for k, v in sorted(agg.sets.items()):
        print(f"    |{k}| = {len(v)}")
    if replay:
        print(f"replay: violation reproduced in {len(agg.violations)} of {agg.evaluations} re-executions")
    if agg.violations:
        for l in vio_lines[: 1 if replay else None]:
            print(l)
        return 1
    if reasons:
        for r in reasons[:20]:
            print(f"INCONCLUSIVE property={check_id} {r}")
        return 2
    print(f"HELD property={check_id} (on what was observed)")
    return 0


def _validate_evidence(path, reasons):
    try:
        import jsonschema
    except Exception:
        return
    schema_path = "/root/.vp/EVIDENCE.schema.json"
    if not os.path.exists(schema_path):
        schema_path = os.path.join(env.VERIF, "vmon", "EVIDENCE.schema.json")
    try:
        with open(schema_path) as f:
            schema = json.load(f)
        with open(path) as f:
            jsonschema.validate(json.load(f), schema)
    except FileNotFoundError:
        return
    except Exception as ex:
        reasons.append(f"evidence file does not validate: {str(ex)[:300]}")
