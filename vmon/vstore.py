"""In-memory value stores on a logical clock, stamped in the harness history (DESIGN 2.2)."""
import datetime as dt
import threading

from uberjob import ValueStore

from . import ir as irmod

EPOCH = dt.datetime(2001, 1, 1)


class Clock:
    def __init__(self):
        self.t = 0
        self.lock = threading.Lock()

    def tick(self):
        with self.lock:
            self.t += 1
            return self.t

    def now(self):
        return self.t

    @staticmethod
    def to_dt(tick):
        return EPOCH + dt.timedelta(seconds=tick)


class ReadVal:
    """What a normalising store's read returns: equal across reads of equal content, never identical."""

    __slots__ = ("store", "rseq", "dig", "__weakref__")

    def __init__(self, store, rseq, dig):
        self.store = store
        self.rseq = rseq
        self.dig = dig

    def canon(self):
        return f"R:{self.dig}"

    def __eq__(self, other):
        return type(other) is ReadVal and other.dig == self.dig

    def __hash__(self):
        return hash(("R", self.dig))

    def __repr__(self):
        return f"ReadVal({self.store}#{self.rseq},{self.dig})"


def norm_dig(content):
    return irmod.digest(irmod.canon(content))


MISSING = object()


class StoreFault(Exception):
    pass


class StoreFaultBase(BaseException):
    pass


class VStore(ValueStore):
    """name: key used in the history; H: rec.Harness (lock, seq, events, in-flight counters)."""

    dt_of = staticmethod(Clock.to_dt)  # how a tick is rendered as a datetime (C18 overrides it per store)

    def __init__(self, name, clock, H, normalising=False):
        self.name = name
        self.clock = clock
        self.H = H
        self.normalising = normalising
        self.content = MISSING
        self.mtick = None
        self.rseq = 0
        self.last_read = None  # the object returned by the last read (identity checks)
        self.reads_returned = []

    # -- harness-side manipulation (not stamped as uberjob activity)
    def set_content(self, v):
        self.content = v
        self.mtick = self.clock.tick()

    def delete(self):
        self.content = MISSING
        self.mtick = None

    def snapshot(self):
        return (self.content, self.mtick)

    def restore(self, snap):
        self.content, self.mtick = snap

    def side_write(self, v):
        """A producer call writes a dependent source's store as a side effect."""
        H = self.H
        with H.lock:
            H.seq += 1
            self.content = v
            self.mtick = self.clock.tick()
            H.events.append((H.seq, "side_write", self.name, threading.get_ident(), self.mtick))

    # -- the ValueStore interface
    def _enter(self, kind, counter):
        H = self.H
        with H.lock:
            H.seq += 1
            if counter == "op":
                H.in_flight += 1
                if H.in_flight > H.max_in_flight:
                    H.max_in_flight = H.in_flight
            else:
                H.mt_in_flight = getattr(H, "mt_in_flight", 0) + 1
                if H.mt_in_flight > getattr(H, "max_mt_in_flight", 0):
                    H.max_mt_in_flight = H.mt_in_flight
            H.attempts_store[(kind, self.name)] = H.attempts_store.get((kind, self.name), 0) + 1
            H.events.append((H.seq, kind, self.name, threading.get_ident(), None))
            return H.seq

    def _leave(self, kind, counter, extra=None):
        H = self.H
        with H.lock:
            H.seq += 1
            if counter == "op":
                H.in_flight -= 1
            else:
                H.mt_in_flight -= 1
            H.events.append((H.seq, kind, self.name, threading.get_ident(), extra))
            return H.seq

    def read(self):
        H = self.H
        s0 = self._enter("rd", "op")
        try:
            if H.store_hook is not None:
                H.store_hook("rd", self)
            if self.content is MISSING:
                raise StoreFault(f"read of empty store {self.name}")
            with H.lock:
                self.rseq += 1
                if self.normalising:
                    v = ReadVal(self.name, self.rseq, norm_dig(self.content))
                else:
                    v = self.content
                self.last_read = v
        except BaseException as e:
            self._leave("rd_raise", "op", type(e).__name__)
            raise
        s1 = self._leave("rd_end", "op")
        self.reads_returned.append((v, s0, s1))
        return v

    def write(self, value):
        H = self.H
        self._enter("wr", "op")
        try:
            if H.store_hook is not None:
                H.store_hook("wr_before", self)
            with H.lock:
                self.content = value
                self.mtick = self.clock.tick()
                H.seq += 1
                H.events.append((H.seq, "wr_effect", self.name, threading.get_ident(), self.mtick))
            if H.store_hook is not None:
                H.store_hook("wr_after", self)
        except BaseException as e:
            self._leave("wr_raise", "op", type(e).__name__)
            raise
        self._leave("wr_end", "op")

    def get_modified_time(self):
        H = self.H
        self._enter("mt", "mt")
        try:
            if H.store_hook is not None:
                H.store_hook("mt", self)
            r = None if self.mtick is None else self.dt_of(self.mtick)
        except BaseException as e:
            self._leave("mt_raise", "mt", type(e).__name__)
            raise
        self._leave("mt_end", "mt")
        return r

    def __repr__(self):
        return f"VStore({self.name})"


class SizedVStore(VStore):
    """A store object with a length - 0 while it is empty (a legal ValueStore: `if store:` is not `if store is not None:`)."""

    def __len__(self):
        return 0 if self.content is MISSING else 1
