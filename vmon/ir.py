"""Plan IR, generators, builder (real uberjob calls) and the reference interpreter (no uberjob semantics).

The IR is a list of nodes created in id order; node i only refers to nodes j < i, except plain
dependency edges which are kept in a separate edge list and added after all nodes exist (the generator
guarantees acyclicity by construction: every edge goes from a lower to a higher *position*).
"""
import collections
import hashlib
import itertools
import random

# ----------------------------------------------------------------------------------------- values


class Val:
    """Unique, weak-referenceable result of a harness call."""

    __slots__ = ("nid", "dig", "__weakref__")

    def __init__(self, nid, dig):
        self.nid = nid
        self.dig = dig

    def __eq__(self, other):
        return type(other) is Val and self.nid == other.nid and self.dig == other.dig

    def __hash__(self):
        return hash((self.nid, self.dig))

    def __repr__(self):
        return f"Val({self.nid},{self.dig})"


class MyList(list):
    """list subclass: must be treated as opaque by gather."""


class MyDict(dict):
    pass


Pair = collections.namedtuple("Pair", "a b")


class SeqObj:
    """has __len__ and __getitem__ but iterates in REVERSE order: unpack must use iteration, like tuple(x)"""

    def __init__(self, items):
        self.items = items

    def __len__(self):
        return len(self.items)

    def __getitem__(self, i):
        return self.items[i]

    def __iter__(self):
        return iter(self.items[::-1])

    def __eq__(self, other):
        return type(other) is SeqObj and self.items == other.items

    __hash__ = None

    def canon(self):
        return "SeqObj[" + ",".join(canon(i) for i in self.items) + "]"


class Blob:
    """plain object, identity equality"""

    __slots__ = ("tag", "payload")

    def __init__(self, tag, payload=None):
        self.tag = tag
        self.payload = payload

    def __repr__(self):
        return f"Blob({self.tag})"


def canon(x, opaque_ids=None):
    t = type(x)
    if t is Val:
        return f"V{x.nid}:{x.dig}"
    if x is None or t in (int, str, bool, float, bytes):
        return repr(x)
    if t is list:
        return "[" + ",".join(canon(i, opaque_ids) for i in x) + "]"
    if t is tuple:
        return "(" + ",".join(canon(i, opaque_ids) for i in x) + ",)"
    if t is set:
        return "{" + ",".join(sorted(canon(i, opaque_ids) for i in x)) + "}"
    if t is dict:
        return "{" + ",".join(canon(k, opaque_ids) + ":" + canon(v, opaque_ids) for k, v in x.items()) + "}"
    c = getattr(x, "canon", None)
    if c is not None:
        return c()
    if opaque_ids is not None and id(x) in opaque_ids:
        return f"O{opaque_ids[id(x)]}"
    return f"O?{t.__name__}"


def digest(s: str) -> str:
    return hashlib.sha1(s.encode()).hexdigest()[:10]


def struct_eq(a, b):
    """Equality by structure AND exact container type; leaves by ==, opaque leaves by identity-or-==."""
    ta, tb = type(a), type(b)
    if ta is not tb:
        return False
    if ta in (list, tuple):
        return len(a) == len(b) and all(struct_eq(x, y) for x, y in zip(a, b))
    if ta is dict:
        if len(a) != len(b):
            return False
        for (ka, va), (kb, vb) in zip(a.items(), b.items()):
            if not struct_eq(ka, kb) or not struct_eq(va, vb):
                return False
        return True
    if ta is set:
        return a == b
    return a is b or a == b


# ----------------------------------------------------------------------------------------- expressions


class X:
    """Expression: k in ref|const|list|tuple|set|dict|opaque."""

    __slots__ = ("k", "a", "built", "hasref", "okind")

    def __init__(self, k, a, okind=None):
        self.k = k
        self.a = a
        self.okind = okind
        self.built = None
        if k == "ref":
            self.hasref = True
        elif k in ("const", "opaque"):
            self.hasref = False
        elif k == "dict":
            self.hasref = any(kx.hasref or vx.hasref for kx, vx in a)
        else:
            self.hasref = any(c.hasref for c in a)

    def refs(self, out=None):
        """navigable refs (what uberjob sees as dependencies)"""
        if out is None:
            out = []
        if self.k == "ref":
            out.append(self.a)
        elif self.k == "dict":
            for kx, vx in self.a:
                kx.refs(out)
                vx.refs(out)
        elif self.k in ("list", "tuple", "set"):
            for c in self.a:
                c.refs(out)
        return out

    def desc(self):
        if self.k == "ref":
            return f"n{self.a}"
        if self.k == "const":
            return repr(self.a)[:20]
        if self.k == "opaque":
            return f"<{self.okind}>"
        if self.k == "dict":
            return "{" + ", ".join(f"{k.desc()}: {v.desc()}" for k, v in self.a) + "}"
        o, c = {"list": "[]", "tuple": "()", "set": "{}"}[self.k]
        return o + ", ".join(c_.desc() for c_ in self.a) + c


def ref(i):
    return X("ref", i)


def const(v):
    return X("const", v)


class N:
    __slots__ = (
        "id", "kind", "fnkind", "args", "kwargs", "scope", "value", "expr", "src", "length", "index",
        "fname", "seq_n", "node", "builtin",
    )

    def __init__(self, id, kind, **kw):
        self.id = id
        self.kind = kind  # call | lit | gather | unpack | item
        self.fnkind = kw.get("fnkind", "val")
        self.args = kw.get("args", [])
        self.kwargs = kw.get("kwargs", [])
        self.scope = kw.get("scope", ())
        self.value = kw.get("value")
        self.expr = kw.get("expr")
        self.src = kw.get("src")
        self.length = kw.get("length")
        self.index = kw.get("index")
        self.fname = kw.get("fname")
        self.seq_n = kw.get("seq_n", 0)
        self.node = None  # real uberjob node after build
        self.builtin = kw.get("builtin")  # a real (C) callable used instead of a harness function

    def nav_refs(self):
        out = []
        if self.kind == "call":
            for a in self.args:
                a.refs(out)
            for _, a in self.kwargs:
                a.refs(out)
        elif self.kind == "gather":
            self.expr.refs(out)
        elif self.kind == "unpack":
            self.src.refs(out)
        elif self.kind == "item":
            out.append(self.src)
        return out


class IR:
    def __init__(self):
        self.nodes = []  # list[N] in creation order
        self.deps = []  # list[(src_id, dst_id)] plain dependency edges
        self.output = None  # X or None
        self.opaque_ids = {}  # id(obj) -> small int
        self._opaque_keep = []
        self.meta = {}

    # -- construction helpers
    def add(self, kind, **kw):
        n = N(len(self.nodes), kind, **kw)
        self.nodes.append(n)
        return n

    def opaque(self, obj):
        self.opaque_ids[id(obj)] = len(self._opaque_keep)
        self._opaque_keep.append(obj)
        return obj

    # -- graph queries (pure IR)
    def preds(self):
        p = {n.id: set(n.nav_refs()) for n in self.nodes}
        for s, d in self.deps:
            p[d].add(s)
        return p

    def succs(self):
        s = {n.id: set() for n in self.nodes}
        for d, ps in self.preds().items():
            for p in ps:
                s[p].add(d)
        return s

    def ancestors(self, roots, preds=None):
        preds = preds or self.preds()
        seen = set()
        st = list(roots)
        while st:
            u = st.pop()
            if u in seen:
                continue
            seen.add(u)
            st.extend(preds[u])
        return seen

    def harness_calls(self):
        return [n.id for n in self.nodes if n.kind == "call"]

    def needed(self):
        """ids the output transitively depends on (all kinds)."""
        if self.output is None:
            return set()
        return self.ancestors(self.output.refs())

    def describe(self, limit=60):
        lines = []
        for n in self.nodes[:limit]:
            if n.kind == "call":
                a = ", ".join([x.desc() for x in n.args] + [f"{k}={x.desc()}" for k, x in n.kwargs])
                lines.append(f"n{n.id} = call {n.fname}[{n.fnkind}]({a}) scope={n.scope}")
            elif n.kind == "lit":
                lines.append(f"n{n.id} = lit({n.value!r})")
            elif n.kind == "gather":
                lines.append(f"n{n.id} = gather({n.expr.desc()})")
            elif n.kind == "unpack":
                lines.append(f"n{n.id} = unpack({n.src.desc()}, {n.length})")
            elif n.kind == "item":
                lines.append(f"n{n.id} = n{n.src}[{n.index}]")
        if len(self.nodes) > limit:
            lines.append(f"... {len(self.nodes) - limit} more")
        lines.append("deps: " + ", ".join(f"n{s}->n{d}" for s, d in self.deps[:80]))
        lines.append("output: " + (self.output.desc() if self.output is not None else "None"))
        return lines


# ----------------------------------------------------------------------------------------- compute


def compute(ir, n, args, kwargs):
    """Deterministic semantics of harness call n on already evaluated args / ordered kwargs list."""
    s = "|".join(
        [str(n.id)]
        + [canon(a, ir.opaque_ids) for a in args]
        + [f"{k}={canon(v, ir.opaque_ids)}" for k, v in kwargs]
    )
    d = digest(s)
    fk = n.fnkind
    if fk == "val":
        return Val(n.id, d)
    if fk == "int":
        return int(d, 16) % 3
    if fk == "list":
        return [Val((n.id, i), d) for i in range(n.seq_n)]
    if fk == "tuple":
        return tuple(Val((n.id, i), d) for i in range(n.seq_n))
    if fk == "gen":
        return (Val((n.id, i), d) for i in range(n.seq_n))
    if fk == "imap":
        # a mapping with the integer keys 0..n-1: iterating it (what unpack does) yields the KEYS, not the values
        return {i: Val((n.id, i), d) for i in range(n.seq_n)}
    if fk == "seqobj":
        return SeqObj([Val((n.id, i), d) for i in range(n.seq_n)])
    if fk == "first":
        return args[0] if args else Val(n.id, d)
    raise AssertionError(fk)


# ----------------------------------------------------------------------------------------- build


def build_expr(x, ir):
    """Create the python object handed to uberjob (real Nodes in place of refs). Cached in x.built."""
    if x.built is not None or (x.k == "const" and x.a is None):
        return x.built
    k = x.k
    if k == "ref":
        b = ir.nodes[x.a].node
    elif k == "const":
        b = x.a
    elif k == "list":
        b = [build_expr(c, ir) for c in x.a]
    elif k == "tuple":
        b = tuple(build_expr(c, ir) for c in x.a)
    elif k == "set":
        b = {build_expr(c, ir) for c in x.a}
    elif k == "dict":
        b = {build_expr(kx, ir): build_expr(vx, ir) for kx, vx in x.a}
    elif k == "opaque":
        items = [build_expr(c, ir) for c in x.a]
        if x.okind == "MyList":
            b = MyList(items)
        elif x.okind == "MyDict":
            b = MyDict((i, v) for i, v in enumerate(items))
        elif x.okind == "Pair":
            b = Pair(items[0] if items else None, items[1] if len(items) > 1 else None)
        elif x.okind == "frozenset":
            b = frozenset(items)
        else:
            b = Blob(len(ir._opaque_keep), items)
        ir.opaque(b)
    else:
        raise AssertionError(k)
    x.built = b
    return b


def build(ir, plan, make_fn):
    """Issue the real plan.call / lit / gather / unpack / add_dependency / scope calls."""
    pending_items = {}
    for n in ir.nodes:
        if n.kind == "call":
            args = [build_expr(a, ir) for a in n.args]
            kwargs = {k: build_expr(a, ir) for k, a in n.kwargs}
            fn = n.builtin if n.builtin is not None else make_fn(n)
            if n.scope:
                with plan.scope(*n.scope):
                    n.node = plan.call(fn, *args, **kwargs)
            else:
                n.node = plan.call(fn, *args, **kwargs)
        elif n.kind == "lit":
            if n.scope:
                with plan.scope(*n.scope):
                    n.node = plan.lit(n.value)
            else:
                n.node = plan.lit(n.value)
        elif n.kind == "gather":
            n.node = plan.gather(build_expr(n.expr, ir))
        elif n.kind == "unpack":
            items = plan.unpack(build_expr(n.src, ir), n.length)
            pending_items[n.id] = items
            # the unpack call itself is the single predecessor of every item (or no node when length 0)
            n.node = None
            if items:
                (n.node,) = {p for p in plan.graph.predecessors(items[0]) if hasattr(p, "fn")}
        elif n.kind == "item":
            n.node = pending_items[n.src][n.index]
    for s, d in ir.deps:
        plan.add_dependency(ir.nodes[s].node, ir.nodes[d].node)
    out = None
    if ir.output is not None:
        out = build_expr(ir.output, ir)
    return out


# ----------------------------------------------------------------------------------------- reference


class RefError(Exception):
    def __init__(self, nid, exc):
        super().__init__(f"reference: node {nid} fails: {exc!r}")
        self.nid = nid
        self.exc = exc


class Evaluator:
    """Reference interpreter: direct recursive evaluation of the IR (never imports uberjob)."""

    def __init__(self, ir, failing=()):
        self.ir = ir
        self.values = {}
        self.failing = failing

    def ev(self, x):
        k = x.k
        if k == "ref":
            return self.val(x.a)
        if k in ("const", "opaque"):
            return x.built if x.built is not None else x.a
        if not x.hasref:
            # node-free container: the very object supplied
            return x.built
        if k == "list":
            return [self.ev(c) for c in x.a]
        if k == "tuple":
            return tuple(self.ev(c) for c in x.a)
        if k == "set":
            return {self.ev(c) for c in x.a}
        if k == "dict":
            return dict((self.ev(kx), self.ev(vx)) for kx, vx in x.a)
        raise AssertionError(k)

    def val(self, i):
        values = self.values
        if i in values:
            return values[i]
        ir = self.ir
        n = ir.nodes[i]
        if n.kind == "call":
            if i in self.failing:
                raise RefError(i, "injected")
            v = compute(ir, n, [self.ev(a) for a in n.args], [(k, self.ev(a)) for k, a in n.kwargs])
        elif n.kind == "lit":
            v = n.value
        elif n.kind == "gather":
            v = self.ev(n.expr)
        elif n.kind == "unpack":
            t = tuple(itertools.islice(self.ev(n.src), n.length + 1))
            if len(t) != n.length:
                raise RefError(i, f"unpack length {len(t)} != {n.length}")
            v = t
        elif n.kind == "item":
            v = self.val(n.src)[n.index]
        else:
            raise AssertionError(n.kind)
        values[i] = v
        return v

    def output(self):
        return None if self.ir.output is None else self.ev(self.ir.output)


def evaluate(ir, failing=()):
    e = Evaluator(ir, failing)
    return e.output(), e.values


# ----------------------------------------------------------------------------------------- generators

FAMILIES = ["chain", "layers", "join", "tree", "diamond", "zipper", "crisscross", "random", "disconnected"]


def skeleton(rng, family, n):
    """preds[i] subset of range(i)."""
    P = [set() for _ in range(n)]
    if n <= 1:
        return P
    if family == "chain":
        for i in range(1, n):
            P[i] = {i - 1}
    elif family == "layers":
        w = rng.randint(2, max(2, min(8, n // 2)))
        layers = [list(range(s, min(n, s + w))) for s in range(0, n, w)]
        for L in range(1, len(layers)):
            for i in layers[L]:
                k = rng.randint(1, min(len(layers[L - 1]), rng.choice([1, 2, 3, len(layers[L - 1])])))
                P[i] = set(rng.sample(layers[L - 1], k))
    elif family == "join":
        i = 0
        while i < n:
            m = rng.randint(2, 12)
            grp = list(range(i, min(n - 1, i + m)))
            sink = min(n - 1, i + m)
            if grp and sink not in grp:
                P[sink] = set(grp)
                # chain joins together sometimes
                if i > 0 and rng.random() < 0.5:
                    for g in grp:
                        P[g] = {i - 1}
            i = sink + 1
    elif family == "tree":
        for i in range(1, n):
            P[i] = {rng.randrange(i)}
    elif family == "diamond":
        i = 0
        prev = None
        while i < n:
            top = i
            if prev is not None:
                P[top] = {prev}
            k = rng.randint(2, 6)
            mids = list(range(top + 1, min(n, top + 1 + k)))
            for m in mids:
                P[m] = {top}
            bot = top + 1 + k
            if bot < n:
                P[bot] = set(mids)
                prev = bot
            i = bot + 1
    elif family == "zipper":
        h = n // 2
        for i in range(1, h):
            P[i] = {i - 1}
        for j in range(h, n):
            P[j] = {j - h} if j - h < h else set()
            if j > h:
                P[j].add(j - 1)
    elif family == "crisscross":
        w = rng.randint(2, 5)
        layers = [list(range(s, min(n, s + w))) for s in range(0, n, w)]
        for L in range(1, len(layers)):
            for i in layers[L]:
                P[i] = set(layers[L - 1])
    elif family == "random":
        p = rng.choice([0.05, 0.1, 0.2, 0.4, 0.7])
        for i in range(1, n):
            cand = [j for j in range(i) if rng.random() < p]
            if len(cand) > 12:
                cand = rng.sample(cand, 12)
            P[i] = set(cand)
    elif family == "disconnected":
        parts = rng.randint(2, 4)
        bounds = sorted(rng.sample(range(1, n), min(parts - 1, n - 1))) if n > 2 else []
        starts = [0] + bounds + [n]
        for a, b in zip(starts, starts[1:]):
            sub = skeleton(rng, rng.choice(["chain", "join", "tree", "random", "diamond"]), b - a)
            for k, ps in enumerate(sub):
                P[a + k] = {a + q for q in ps}
    else:
        raise ValueError(family)
    return P


SCOPE_VALUES = ["a", "b", ("t", 1), 1, 2, None, frozenset({1}), "x.y", 3.5]
CONSTS = [0, 1, "s", None, (1, 2), "k"]
FRESH_CONSTS = [lambda: tuple([1, 2]), lambda: (True, 2), lambda: 0.0, lambda: -0.0, lambda: "".join(["s", "t", "r"]), lambda: tuple([1, 2]),
                lambda: frozenset([1, 2]), lambda: (1.0, 2), lambda: tuple(), lambda: 10 ** 30, lambda: b"by" + b"tes"]


def gen_ir(rng, n_calls, family=None, rich=True, cfg=None):
    """Generate an IR with n_calls harness calls.

    rich=True : containers, kwargs, literals-with-dependencies, unpack, opaque arguments, parallel edges.
    rich=False: positional/keyword/plain-dependency edges only (used by the registry model).
    """
    cfg = dict(cfg or {})
    family = family or rng.choice(FAMILIES)
    P = skeleton(rng, family, n_calls)
    ir = IR()
    ir.meta["family"] = family
    p_dep = cfg.get("p_dep", 0.2)
    p_kw = cfg.get("p_kw", 0.25)
    p_cont = cfg.get("p_cont", 0.25 if rich else 0.0)
    p_lit = cfg.get("p_lit", 0.12 if rich else 0.0)
    p_par = cfg.get("p_par", 0.12)
    p_opq = cfg.get("p_opq", 0.1 if rich else 0.0)
    p_unp = cfg.get("p_unpack", 0.1 if rich else 0.0)
    p_scope = cfg.get("p_scope", 0.3)
    n_fnames = cfg.get("n_fnames", 5)
    skel_to_id = {}
    unpacks = {}
    hashable = set()
    # keyword names: lexical order differs from the given order; some coincide with parameter names used inside the engine
    KW = ["zeta", "alpha", "m10", "m9", "beta", "k2", "k10", "omega", "aa", "f", "fn", "attempts", "exc_type", "node", "args", "kwargs", "retry", "value", "self_", "scope", "plan", "graph", "output", "registry", "length", "call", "progress", "key", "index"]

    def new_scope():
        if rng.random() >= p_scope:
            return ()
        return tuple(rng.choice(SCOPE_VALUES) for _ in range(rng.randint(1, 3)))

    def const_expr():
        r = rng.random()
        if rich and r < 0.18:
            # equal (and hash-equal) but distinct objects: "the very objects supplied" is about identity, so two calls given
            # equal constants must each receive their own object (0.0 / -0.0, (1, 2) / (True, 2), freshly built tuples/strings)
            return const(rng.choice(FRESH_CONSTS)())
        if r < 0.6 or not rich:
            return const(rng.choice(CONSTS))
        if r < 0.8:
            return X(rng.choice(["list", "tuple"]), [const(rng.choice(CONSTS)) for _ in range(rng.randint(0, 3))])
        return X("dict", [(const(rng.choice(["a", "b", 1])), const(rng.choice(CONSTS)))])

    for si in range(n_calls):
        preds = sorted(P[si])
        rng.shuffle(preds)
        args, kwargs, late_deps = [], [], []
        cont_members = []
        for p in preds:
            pid = skel_to_id[p]
            pn = ir.nodes[pid]
            r = rng.random()
            # producers of sequences can be unpacked
            if rich and pn.fnkind in ("list", "tuple", "gen", "imap", "seqobj") and rng.random() < 0.8:
                if pid not in unpacks:
                    u = ir.add("unpack", src=ref(pid), length=pn.seq_n)
                    unpacks[pid] = [ir.add("item", src=u.id, index=j) for j in range(pn.seq_n)]
                    hashable.update(it.id for it in unpacks[pid])
                items = unpacks[pid]
                if items:
                    pick = rng.choice(items)
                    args.append(ref(pick.id))
                else:
                    late_deps.append(pid)
                continue
            if pn.fnkind == "gen":
                # a generator result can only be consumed once: keep it as a plain dependency
                late_deps.append(pid)
                continue
            if rich and rng.random() < 0.05:
                # unpack applied directly to a STRUCTURE that contains nodes: it yields what iterating the rebuilt structure yields - the items of
                # a list / tuple, the KEYS of a dict, the elements of a set
                shape = rng.choice(["list", "tuple", "dict", "dictkey", "set1"] if pid in hashable else ["list", "tuple", "dict"])
                if shape in ("list", "tuple"):
                    members = [ref(pid), const(rng.choice(CONSTS)), ref(pid)][: rng.randint(1, 3)]
                    sx = X(shape, members)
                    ulen = len(members)
                elif shape == "dict":
                    sx = X("dict", [(const("a"), ref(pid)), (const("b"), const(rng.choice(CONSTS)))][: rng.randint(1, 2)])
                    ulen = len(sx.a)
                elif shape == "dictkey":
                    sx = X("dict", [(ref(pid), const(1))])
                    ulen = 1
                else:
                    sx = X("set", [ref(pid)])
                    ulen = 1
                u = ir.add("unpack", src=sx, length=ulen)
                its = [ir.add("item", src=u.id, index=j) for j in range(ulen)]
                ir.meta["unpack_of_structures"] = ir.meta.get("unpack_of_structures", 0) + 1
                args.append(ref(rng.choice(its).id))
                continue
            if r < p_dep:
                late_deps.append(pid)
            elif r < p_dep + p_kw:
                kwargs.append((None, ref(pid)))
            elif r < p_dep + p_kw + p_cont:
                cont_members.append(ref(pid))
            elif r < p_dep + p_kw + p_cont + p_lit:
                # routed through a literal: pred -> lit (dependency) ; lit -> this call (arg or dependency)
                lit = ir.add("lit", value=rng.choice(CONSTS), scope=new_scope())
                ir.deps.append((pid, lit.id))
                if rng.random() < 0.3:
                    # two adjacent literals: pred -> lit1 -> lit2 -> this call (both are bypassed by pruning when dependency-only)
                    lit2 = ir.add("lit", value=rng.choice(CONSTS), scope=new_scope())
                    ir.deps.append((lit.id, lit2.id))
                    lit = lit2
                if rng.random() < 0.5:
                    # the literal is the argument itself, or sits inside a container that holds no other node (the dependency onto the literal is
                    # declared later: when the container is gathered the literal has no dependency yet)
                    args.append(ref(lit.id) if rng.random() < 0.65 else _wrap(rng, [ref(lit.id)], const_expr))
                else:
                    late_deps.append(lit.id)
            else:
                args.append(ref(pid))
            if rng.random() < p_par:
                # parallel edges between the same pair
                c = rng.random()
                if c < 0.4:
                    args.append(ref(pid))
                elif c < 0.7:
                    kwargs.append((None, ref(pid)))
                else:
                    late_deps.append(pid)
        if cont_members:
            # pack into one or two containers of random shape
            rng.shuffle(cont_members)
            while cont_members:
                take = cont_members[: rng.randint(1, len(cont_members))]
                cont_members = cont_members[len(take):]
                args.append(_wrap(rng, take, const_expr, hashable))
        # node-free and opaque arguments
        for _ in range(rng.choice([0, 0, 1, 2]) if rich else 0):
            args.insert(rng.randint(0, len(args)), const_expr())
        if rich and rng.random() < p_opq and si > 0:
            inner = [ref(skel_to_id[rng.randrange(si)])] if rng.random() < 0.6 else [const(1)]
            inner.append(const(rng.choice(CONSTS)))
            args.append(X("opaque", inner, okind=rng.choice(["MyList", "MyDict", "Pair", "frozenset", "Blob"])))
        if rich and rng.random() < 0.05:
            # many positionals (> 10) so that string-sorted indices would differ
            args.extend(const(i) for i in range(rng.randint(8, 12)))
        if rich and rng.random() < 0.3:
            # plain (node-free) keyword arguments among the symbolic ones: the function receives all of them in the order given
            for _ in range(rng.choice([1, 1, 2, 3])):
                kwargs.insert(rng.randint(0, len(kwargs)), (None, const_expr()))
        names = rng.sample(KW, min(len(kwargs), len(KW)))
        kwargs = [(names[i], x) for i, (_, x) in enumerate(kwargs[: len(names)])]
        fk = "val"
        seq_n = 0
        r = rng.random()
        if rich and r < p_unp:
            fk = rng.choice(["list", "tuple", "gen", "imap", "seqobj"])
            seq_n = rng.randint(0, 5)
        elif rich and r < p_unp + 0.12:
            fk = "int"
        elif rich and r < p_unp + 0.17 and args and args[0].k == "ref":
            fk = "first"
        n = ir.add(
            "call", fnkind=fk, args=args, kwargs=kwargs, scope=new_scope(), fname=f"fn{rng.randrange(n_fnames)}", seq_n=seq_n
        )
        skel_to_id[si] = n.id
        if fk in ("val", "int", "tuple"):
            hashable.add(n.id)
        for d in late_deps:
            ir.deps.append((d, n.id))
    ir.meta["skel_to_id"] = skel_to_id
    call_ids = ir.harness_calls()
    ir.meta["shuffle_deps"] = rng.random() < 0.5
    # literal hubs: m predecessors -> literal -> n successors (both sides of the m*n > m+n threshold)
    if rich and len(call_ids) >= 4 and rng.random() < cfg.get("p_hub", 0.35):
        for _ in range(rng.randint(1, 2)):
            cut = rng.randint(1, len(call_ids) - 1)
            A = rng.sample(call_ids[:cut], rng.randint(1, min(4, cut)))
            B = rng.sample(call_ids[cut:], rng.randint(1, min(4, len(call_ids) - cut)))
            lit = ir.add("lit", value="hub")
            for a in A:
                ir.deps.append((a, lit.id))
            for b in B:
                ir.deps.append((lit.id, b))
    # extra explicit gather nodes
    if rich and call_ids and rng.random() < 0.3:
        pick = rng.sample(call_ids, min(len(call_ids), rng.randint(1, 3)))
        pick = [p for p in pick if ir.nodes[p].fnkind != "gen"]
        if pick:
            ir.add("gather", expr=_wrap(rng, [ref(p) for p in pick], const_expr, hashable))
    # output spec
    hashable.update(n.id for n in ir.nodes if n.kind == "lit")
    ir.meta["hashable"] = hashable
    ir.output = gen_output(rng, ir, cfg.get("out", None))
    if ir.meta.get("shuffle_deps"):
        # add_dependency calls are issued in list order by build(): the order of declaration must not matter (e.g. lit -> b declared
        # before a -> lit)
        rng.shuffle(ir.deps)
    return ir


def _wrap(rng, members, const_expr, hashable=()):
    kinds = ["list", "tuple", "dictv", "nested"]
    if all(m.k == "ref" and m.a in hashable for m in members):
        kinds += ["dictk", "set", "dictk", "set"]
    kind = rng.choice(kinds)
    extra = [const_expr() for _ in range(rng.choice([0, 0, 1]))]
    if kind == "list":
        items = members + extra
        rng.shuffle(items)
        return X("list", items)
    if kind == "tuple":
        items = members + extra
        rng.shuffle(items)
        return X("tuple", items)
    if kind == "set":
        return X("set", list(members))
    if kind == "dictv":
        return X("dict", [(const(f"k{i}"), m) for i, m in enumerate(members)] + [(const("c"), e) for e in extra])
    if kind == "dictk":
        # nodes as keys (possibly colliding after evaluation) and a literal key that may collide as well
        items = [(m, const(i)) for i, m in enumerate(members)]
        items.append((const(1), const("lit")))
        return X("dict", items)
    inner = X(rng.choice(["list", "tuple"]), list(members))
    if rng.random() < 0.3:
        # the SAME container object reachable twice in one argument (a finite nesting, not a cycle): [row, row]
        return X(rng.choice(["list", "tuple"]), [inner, inner] + extra)
    return X(rng.choice(["list", "tuple"]), [inner] + extra + [X("list", [const(1), const(2)])])


def gen_output(rng, ir, kind=None):
    usable = [n.id for n in ir.nodes if n.kind in ("call", "gather", "item", "lit") and n.fnkind != "gen"]
    kind = kind or rng.choice(["none", "node", "node", "struct", "struct", "all", "litonly", "sinks"])
    if not usable or kind == "none":
        return None
    if kind == "litonly":
        return rng.choice([const(7), X("list", []), X("dict", []), X("tuple", [const(1), const("a")])])
    if kind == "node":
        return ref(rng.choice(usable))
    if kind == "all":
        return X("list", [ref(u) for u in usable])
    if kind == "sinks":
        succ = ir.succs()
        sinks = [u for u in usable if not succ[u]]
        return X("tuple", [ref(u) for u in (sinks or usable[-1:])])
    pick = rng.sample(usable, min(len(usable), rng.randint(1, 4)))
    return _wrap(rng, [ref(p) for p in pick], lambda: const(rng.choice(CONSTS)), ir.meta.get("hashable", ()))
