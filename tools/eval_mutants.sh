#!/bin/sh
# evaluates every ${MUT_BASE:-/tmp/mut}/Cxx/_out/mutantN.diff not yet evaluated against its own property's check
mkdir -p ${MUT_BASE:-/tmp/mut}/results
for d in ${MUT_BASE:-/tmp/mut}/C*/_out; do
  id=$(basename $(dirname $d))
  for n in 1 2 3; do
    [ -f $d/mutant$n.diff ] || continue
    [ -f $d/notes$n.md ] || continue
    out=${MUT_BASE:-/tmp/mut}/results/$id-$n.json
    [ -s $out ] && continue
    /verif/tools/try_mutant.py $d/mutant$n.diff --demo $d/demo$n.py --checks $id > $out 2>&1
  done
done
/venv/bin/python - <<'P'
import json,glob
for f in sorted(glob.glob(__import__('os').environ.get('MUT_BASE','/tmp/mut')+'/results/*.json')):
    try: r=json.load(open(f))
    except Exception as e: print(f.split('/')[-1],'UNPARSABLE'); continue
    c=r.get('checks',{})
    line=f"{f.split('/')[-1][:-5]} tests[{(r.get('tests') or '')[:10]}] demo {r.get('demo_with_patch_exit')}/{r.get('demo_without_patch_exit')}"
    for k,v in c.items(): line+=f" | {k} exit={v['exit']} viol={v['violations']} inc={v['inconclusive']} {v['wall']}s"
    print(line)
P
