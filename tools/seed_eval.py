#!/venv/bin/python
"""(Re)evaluate every seeded change against its own property's check (quick tier, seed 0) and rewrite seeded/<id>/meta.json and
the table in validation/KILLS_TABLE.md.

    tools/seed_eval.py [--only C01-3,C07-4] [--par 2] [--jobs 8] [--skip-confirm]

For each seeded/<id>: tools/try_mutant.py applies patch.diff to a `git archive` copy of /repo HEAD under $TMPDIR (never /repo itself),
runs the pinned test-suite against the copy, runs demo.py with and without the change, and runs the property's check against the
copy (VERIF_REPO). The copy is removed afterwards.
"""
import argparse
import concurrent.futures
import json
import os
import re
import subprocess
import sys

VERIF = os.path.dirname(os.path.dirname(os.path.abspath(__file__)))


def files_changed(patch):
    return sorted(set(re.findall(r"^\+\+\+ b/(\S+)", open(patch).read(), re.M)))


def needs(notes):
    try:
        t = open(notes).read()
    except OSError:
        return ""
    m = re.search(r"^#+ *(What (is|it) need[^\n]*|Needs[^\n]*|What is needed[^\n]*)\n(.*?)(\n#+ |\Z)", t, re.S | re.M | re.I)
    txt = (m.group(3) if m else t[:600]).strip()
    return re.sub(r"\s+", " ", txt)[:700]


def evaluate(sid, jobs, skip_confirm):
    d = os.path.join(VERIF, "seeded", sid)
    prop = sid.split("-")[0]
    cmd = [os.path.join(VERIF, "tools", "try_mutant.py"), os.path.join(d, "patch.diff"), "--demo", os.path.join(d, "demo.py"), "--checks", prop]
    if skip_confirm:
        cmd.append("--skip-tests")
    e = dict(os.environ, VERIF_JOBS=str(jobs))
    r = subprocess.run(cmd, capture_output=True, text=True, env=e)
    try:
        out = json.loads(r.stdout)
    except Exception:
        return sid, {"error": (r.stdout + r.stderr)[-400:]}
    meta_path = os.path.join(d, "meta.json")
    meta = json.load(open(meta_path)) if os.path.exists(meta_path) else {}
    meta.update({
        "id": sid, "property": prop,
        "origin": "written by an independent sub-agent that saw only the property text and a scratch worktree (nothing from /verif)",
        "files_changed": files_changed(os.path.join(d, "patch.diff")),
        "needs_to_manifest": needs(os.path.join(d, "notes.md")) or "see notes.md",
    })
    if not skip_confirm or "confirmed_by_me" not in meta:
        meta["confirmed_by_me"] = {
            "applies_to": "git archive of /repo HEAD (scratch copy under $TMPDIR, removed afterwards)",
            "pinned_test_suite_with_patch": out.get("tests", meta.get("confirmed_by_me", {}).get("pinned_test_suite_with_patch")),
            "demo_exit_with_patch": out.get("demo_with_patch_exit"),
            "demo_exit_without_patch": out.get("demo_without_patch_exit"),
            "command": f"tools/try_mutant.py seeded/{sid}/patch.diff --demo seeded/{sid}/demo.py --checks {prop}",
        }
    else:
        meta["confirmed_by_me"]["demo_exit_with_patch"] = out.get("demo_with_patch_exit")
        meta["confirmed_by_me"]["demo_exit_without_patch"] = out.get("demo_without_patch_exit")
    c = out.get("checks", {}).get(prop, {})
    meta["own_check"] = {"check": prop, "tier": "quick", "exit": c.get("exit"), "violations_reported": c.get("violations"),
                         "inconclusive_lines": c.get("inconclusive"), "wall_s": c.get("wall"),
                         "first_witness": c.get("first") or c.get("first_inconclusive")}
    with open(meta_path, "w") as f:
        json.dump(meta, f, indent=1)
    return sid, meta


def main():
    ap = argparse.ArgumentParser()
    ap.add_argument("--only")
    ap.add_argument("--par", type=int, default=2)
    ap.add_argument("--jobs", type=int, default=8)
    ap.add_argument("--skip-confirm", action="store_true")
    ap.add_argument("--table-only", action="store_true")
    a = ap.parse_args()
    ids = sorted(os.listdir(os.path.join(VERIF, "seeded")), key=lambda s: (s.split("-")[0], int(s.split("-")[1])))
    todo = [i for i in ids if not a.only or i in a.only.split(",")]
    if not a.table_only:
        with concurrent.futures.ThreadPoolExecutor(a.par) as ex:
            for sid, meta in ex.map(lambda s: evaluate(s, a.jobs, a.skip_confirm), todo):
                oc = meta.get("own_check", {})
                print(sid, "tests:", (meta.get("confirmed_by_me", {}).get("pinned_test_suite_with_patch") or "")[:10],
                      "demo", meta.get("confirmed_by_me", {}).get("demo_exit_with_patch"), "/", meta.get("confirmed_by_me", {}).get("demo_exit_without_patch"),
                      "check exit", oc.get("exit"), "viol", oc.get("violations_reported"), oc.get("wall_s"), (oc.get("first_witness") or meta.get("error") or "")[:110], flush=True)
    lines = ["| id | files changed | own check verdict (quick tier, seed 0) | first witness reported |", "|---|---|---|---|"]
    miss = []
    for sid in ids:
        try:
            m = json.load(open(os.path.join(VERIF, "seeded", sid, "meta.json")))
        except Exception:
            continue
        oc = m.get("own_check", {})
        verdict = {1: "VIOLATION", 0: "held (MISSED)", 2: "INCONCLUSIVE"}.get(oc.get("exit"), str(oc.get("exit")))
        if oc.get("exit") != 1:
            miss.append(sid)
        w = (oc.get("first_witness") or "").replace("|", "\\|")[:170]
        files = ", ".join(f.replace("src/uberjob/", "") for f in m.get("files_changed", []))
        lines.append(f"| {sid} | {files} | {verdict} ({oc.get('violations_reported')} cases, {oc.get('wall_s')}s) | {w} |")
    with open(os.path.join(VERIF, "validation", "KILLS_TABLE.md"), "w") as f:
        f.write("\n".join(lines) + "\n")
    print("not reported as VIOLATION:", miss)


if __name__ == "__main__":
    sys.exit(main())
