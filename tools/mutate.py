#!/venv/bin/python
"""Systematic mutation sweep (validation of the monitors, never part of a registered check).

    tools/mutate.py gen                      enumerate first-order mutants of /repo/src/uberjob  -> scratch/mutation/mutants.jsonl
    tools/mutate.py run [--par P] [--jobs J] [--files substr,..] [--limit N]
                                             for every mutant not yet evaluated: scratch copy of /repo (git archive HEAD) outside /repo and
                                             /verif, apply, pinned test-suite; if the suite still passes, the checks mapped to the mutated
                                             file are run against the copy (VERIF_REPO) - truncated first, then in full, then every other
                                             check truncated. Results are appended to scratch/mutation/results.jsonl (resumable).
    tools/mutate.py report                   validation/MUTATION.md (+ validation/mutation_survivors.jsonl)

A mutant is "killed by tests" (uninteresting), "killed by <check>" (VIOLATION), "inconclusive" (a check could not reach its monitor,
e.g. everything hangs) or "survived". Survivors are read by hand: equivalent / outside every property / gap to close.
"""
import argparse
import ast
import concurrent.futures
import json
import os
import shutil
import subprocess
import sys
import tempfile
import time

VERIF = os.path.dirname(os.path.dirname(os.path.abspath(__file__)))
OUT = os.path.join(VERIF, "scratch", "mutation")
SRC = "/repo/src/uberjob"
ALL = [f"C{i:02d}" for i in range(1, 21)]

FILEMAP = [
    ("_execution/run_function_on_graph.py", ["C01", "C04", "C06", "C07", "C10", "C17", "C02", "C15", "C08"]),
    ("_execution/run_physical.py", ["C02", "C06", "C16", "C15", "C04", "C19", "C10"]),
    ("_execution/scheduler.py", ["C01", "C04", "C07", "C10", "C17", "C02"]),
    ("_execution/greedy.py", ["C01", "C04", "C07", "C16", "C02"]),
    ("_transformations/caching.py", ["C05", "C03", "C09", "C14", "C08", "C18", "C15", "C19", "C10", "C13"]),
    ("_transformations/pruning.py", ["C04", "C01", "C05", "C03", "C09", "C14", "C02"]),
    ("_transformations/__init__.py", ["C13", "C02", "C05"]),
    ("_run.py", ["C02", "C13", "C14", "C15", "C06", "C10", "C05", "C19"]),
    ("graph.py", ["C02", "C13", "C04", "C19"]),
    ("_graph.py", ["C15", "C02"]),
    ("_plan.py", ["C02", "C13", "C19", "C04", "C01"]),
    ("_builtins.py", ["C02", "C06", "C19"]),
    ("_registry.py", ["C05", "C03", "C13", "C19", "C09"]),
    ("_errors.py", ["C19", "C06", "C15"]),
    ("_util/networkx_util.py", ["C07", "C01", "C04", "C05"]),
    ("_util/retry.py", ["C10"]),
    ("_util/traceback.py", ["C19"]),
    ("_util/validation.py", ["C02", "C13"]),
    ("_util/__init__.py", ["C05", "C15", "C02", "C16", "C03"]),
    ("_value_store.py", ["C05"]),
    ("stores/", ["C12", "C11", "C08", "C18"]),
    ("progress/_simple", ["C20", "C15"]),
    ("progress/_console", ["C20"]),
    ("progress/_html", ["C20"]),
    ("progress/_ipython", ["C20"]),
    ("progress/_composite", ["C15", "C20"]),
    ("progress/", ["C15", "C20"]),
    ("_rendering.py", ["C13"]),
]


def checks_for(rel):
    for k, v in FILEMAP:
        if k in rel:
            return v
    return ["C02", "C13"]


# ---------------------------------------------------------------------------------------------------- generation
CMP = {ast.Gt: ">=", ast.GtE: ">", ast.Lt: "<=", ast.LtE: "<", ast.Eq: "!=", ast.NotEq: "==", ast.Is: "is not", ast.IsNot: "is",
       ast.In: "not in", ast.NotIn: "in"}
CMPTXT = {ast.Gt: ">", ast.GtE: ">=", ast.Lt: "<", ast.LtE: "<=", ast.Eq: "==", ast.NotEq: "!=", ast.Is: "is", ast.IsNot: "is not",
          ast.In: "in", ast.NotIn: "not in"}
NAME_SWAP = {"any": "all", "all": "any", "min": "max", "max": "min", "BaseException": "Exception", "safe_max": "safe_min_MISSING",
             "heappush": None, "append": None}
BIN = {ast.Add: ("+", "-"), ast.Sub: ("-", "+"), ast.Mult: ("*", "+"), ast.FloorDiv: ("//", "*"), ast.Div: ("/", "*"), ast.Mod: ("%", "*")}


class Src:
    def __init__(self, text):
        self.text = text
        self.lines = text.split("\n")
        self.offs = [0]
        for l in self.lines:
            self.offs.append(self.offs[-1] + len(l.encode()) + 1)
        self.bytes = text.encode()

    def pos(self, lineno, col):
        return self.offs[lineno - 1] + col

    def seg(self, a, b):
        return self.bytes[a:b].decode()

    def node_span(self, n):
        return self.pos(n.lineno, n.col_offset), self.pos(n.end_lineno, n.end_col_offset)


def gen_file(rel, text):
    S = Src(text)
    tree = ast.parse(text)
    muts = []

    def add(a, b, new, op, lineno):
        old = S.seg(a, b)
        if old == new:
            return
        muts.append({"file": rel, "a": a, "b": b, "old": old, "new": new, "op": op, "line": lineno})

    def find_between(a, b, tok):
        seg = S.seg(a, b)
        i = seg.find(tok)
        if i < 0:
            return None
        return a + len(seg[:i].encode())

    docstrings = set()
    for n in ast.walk(tree):
        if isinstance(n, (ast.FunctionDef, ast.ClassDef, ast.Module, ast.AsyncFunctionDef)) and n.body:
            b0 = n.body[0]
            if isinstance(b0, ast.Expr) and isinstance(b0.value, ast.Constant) and isinstance(b0.value.value, str):
                docstrings.add(id(b0))
    for n in ast.walk(tree):
        if isinstance(n, ast.Compare):
            left = n.left
            for op, comp in zip(n.ops, n.comparators):
                a = S.pos(left.end_lineno, left.end_col_offset)
                b = S.pos(comp.lineno, comp.col_offset)
                tok = CMPTXT.get(type(op))
                if tok:
                    p = find_between(a, b, tok)
                    if p is not None:
                        add(p, p + len(tok), CMP[type(op)], "cmp", n.lineno)
                left = comp
        elif isinstance(n, ast.BoolOp):
            tok = "and" if isinstance(n.op, ast.And) else "or"
            new = "or" if tok == "and" else "and"
            for l, r in zip(n.values, n.values[1:]):
                a = S.pos(l.end_lineno, l.end_col_offset)
                b = S.pos(r.lineno, r.col_offset)
                p = find_between(a, b, tok)
                if p is not None:
                    add(p, p + len(tok), new, "bool", n.lineno)
        elif isinstance(n, ast.UnaryOp) and isinstance(n.op, ast.Not):
            a, b = S.node_span(n)
            oa, ob = S.node_span(n.operand)
            add(a, oa, "", "not-removed", n.lineno)
        elif isinstance(n, ast.Name) and isinstance(n.ctx, ast.Load) and n.id in ("any", "all", "min", "max", "BaseException"):
            a, b = S.node_span(n)
            add(a, b, NAME_SWAP[n.id], "name", n.lineno)
        elif isinstance(n, ast.Constant) and not isinstance(n.value, (str, bytes)) and n.value is not None and n.value is not Ellipsis:
            a, b = S.node_span(n)
            v = n.value
            if v is True:
                add(a, b, "False", "const", n.lineno)
            elif v is False:
                add(a, b, "True", "const", n.lineno)
            elif isinstance(v, int):
                add(a, b, str(v + 1), "const", n.lineno)
                if v != 0:
                    add(a, b, str(v - 1), "const", n.lineno)
            elif isinstance(v, float):
                add(a, b, repr(v * 2 + 1), "const", n.lineno)
        elif isinstance(n, ast.BinOp) and type(n.op) in BIN:
            tok, new = BIN[type(n.op)]
            a = S.pos(n.left.end_lineno, n.left.end_col_offset)
            b = S.pos(n.right.lineno, n.right.col_offset)
            if isinstance(n.left, ast.Constant) and isinstance(n.left.value, str):
                continue
            p = find_between(a, b, tok)
            if p is not None:
                add(p, p + len(tok), new, "binop", n.lineno)
        elif isinstance(n, ast.AugAssign) and type(n.op) in (ast.Add, ast.Sub):
            tok = "+=" if isinstance(n.op, ast.Add) else "-="
            a = S.pos(n.target.end_lineno, n.target.end_col_offset)
            b = S.pos(n.value.lineno, n.value.col_offset)
            p = find_between(a, b, tok)
            if p is not None:
                add(p, p + 2, "-=" if tok == "+=" else "+=", "augassign", n.lineno)
        elif isinstance(n, (ast.If, ast.IfExp, ast.While)):
            a, b = S.node_span(n.test)
            add(a, b, "True", "cond-true", n.lineno)
            add(a, b, "False", "cond-false", n.lineno)
        elif isinstance(n, ast.With):
            # `with X [as y]:` -> `if True:` keeps the block, drops the context manager (locks!). Only when no `as`.
            if all(it.optional_vars is None for it in n.items):
                a = S.pos(n.lineno, n.col_offset)
                last = n.items[-1].context_expr
                b = S.pos(last.end_lineno, last.end_col_offset)
                add(a, b, "if True", "with-removed", n.lineno)
        elif isinstance(n, ast.Try):
            pass
        if isinstance(n, (ast.Expr, ast.Assign, ast.AugAssign, ast.Raise, ast.Nonlocal, ast.Global, ast.Delete, ast.AnnAssign)):
            if id(n) in docstrings:
                continue
            if isinstance(n, ast.Assign) and n.col_offset == 0:
                continue  # module-level definitions: killed by import
            a, b = S.node_span(n)
            add(a, b, "pass", "stmt-deleted", n.lineno)
        elif isinstance(n, ast.Return) and n.value is not None:
            a, b = S.node_span(n.value)
            if not (isinstance(n.value, ast.Constant) and n.value.value is None):
                add(a, b, "None", "return-none", n.lineno)
        elif isinstance(n, ast.Break):
            a, b = S.node_span(n)
            add(a, b, "continue", "break-continue", n.lineno)
        elif isinstance(n, ast.Continue):
            a, b = S.node_span(n)
            add(a, b, "break", "continue-break", n.lineno)
    # try/except/else/finally structure: 'else:' -> 'finally:' is not expressible in general; handler narrowing is covered by the name swap
    return muts


def cmd_gen(a):
    os.makedirs(OUT, exist_ok=True)
    allm = []
    for root, _, files in os.walk(SRC):
        for f in sorted(files):
            if not f.endswith(".py"):
                continue
            p = os.path.join(root, f)
            rel = os.path.relpath(p, "/repo")
            if "/_testing/" in rel or rel.endswith("__about__.py"):
                continue
            text = open(p).read()
            for m in gen_file(rel, text):
                # sanity: the mutated text must still compile
                new = apply_text(text, m)
                try:
                    compile(new, rel, "exec")
                except SyntaxError:
                    continue
                allm.append(m)
    seen = set()
    out = []
    for m in allm:
        k = (m["file"], m["a"], m["b"], m["new"])
        if k in seen:
            continue
        seen.add(k)
        m["id"] = f"M{len(out):04d}"
        out.append(m)
    with open(os.path.join(OUT, "mutants.jsonl"), "w") as f:
        for m in out:
            f.write(json.dumps(m) + "\n")
    import collections
    c = collections.Counter(m["file"] for m in out)
    for k, v in sorted(c.items()):
        print(f"{v:5d} {k}")
    print(len(out), "mutants")


def apply_text(text, m):
    b = text.encode()
    a0, b0 = m["a"], m["b"]
    if b[a0:b0].decode(errors="replace") != m["old"]:
        # the file changed since `gen` (a later fix: commit shifted the offsets by a few bytes): relocate to the nearest identical text
        o = m["old"].encode()
        for d in sorted(range(-80, 81), key=abs):
            if a0 + d >= 0 and b[a0 + d:a0 + d + len(o)] == o:
                a0, b0 = a0 + d, a0 + d + len(o)
                break
    assert b[a0:b0].decode() == m["old"], (m, b[a0:b0])
    return (b[:a0] + m["new"].encode() + b[b0:]).decode()


# ---------------------------------------------------------------------------------------------------- evaluation
def run_check(scratch, cid, jobs, limit=None, stop_after=1, timeout=900, seed="0"):
    cmd = [os.path.join(VERIF, "check"), cid, "--tier", "quick"]
    if limit:
        cmd += ["--limit", str(limit)]
    e = dict(os.environ, VERIF_REPO=scratch, VERIF_SEED=seed, VERIF_JOBS=str(jobs), VERIF_STOP_AFTER=str(stop_after), VERIF_WATCHDOG_CAP="90")
    t0 = time.time()
    try:
        r = subprocess.run(cmd, env=e, cwd=VERIF, capture_output=True, text=True, timeout=timeout)
        rc = r.returncode
        lines = r.stdout.splitlines()
    except subprocess.TimeoutExpired as ex:
        rc = 124
        lines = (ex.stdout or b"").decode(errors="replace").splitlines() if isinstance(ex.stdout, bytes) else (ex.stdout or "").splitlines()
    first = next((l.strip() for l in lines if l.startswith("  case")), "")
    inc = next((l.strip() for l in lines if l.startswith("INCONCLUSIVE")), "")
    return {"rc": rc, "first": first[:260], "inc": inc[:260], "wall": round(time.time() - t0, 1)}


def eval_mutant(m, jobs, limit):
    scratch = tempfile.mkdtemp(prefix="vmon-mt-")
    res = {"id": m["id"], "file": m["file"], "line": m["line"], "op": m["op"], "old": m["old"][:80], "new": m["new"][:40]}
    try:
        subprocess.run(f"git -C /repo archive HEAD | tar -x -C {scratch}", shell=True, check=True)
        p = os.path.join(scratch, m["file"])
        text = open(p).read()
        open(p, "w").write(apply_text(text, m))
        env = dict(os.environ, PYTHONDONTWRITEBYTECODE="1", PYTHONPATH=f"{scratch}/src")
        try:
            t = subprocess.run(
                "/venv/bin/python -m pytest -q -x -p no:cacheprovider --timeout=60 tests 2>&1 | tail -1",
                shell=True, cwd=scratch, env=env, capture_output=True, text=True, timeout=600)
            tail = t.stdout.strip().splitlines()[-1] if t.stdout.strip() else ""
        except subprocess.TimeoutExpired:
            tail = "timeout"
        res["tests"] = tail[:80]
        if not (" passed" in tail and "failed" not in tail and "error" not in tail):
            res["verdict"] = "killed-by-tests"
            return res
        mapped = checks_for(m["file"])
        runs = {}
        verdict = None
        phases = [("mapped-truncated", mapped, limit)]
        if FULL:
            phases.append(("mapped-full", mapped, None))
        if OTHERS:
            phases.append(("others-truncated", [c for c in ALL if c not in mapped], limit))
        for phase, ids, lim in phases:
            for cid in ids:
                r = run_check(scratch, cid, jobs, limit=lim)
                runs[f"{cid}:{phase}"] = r
                if r["rc"] == 1:
                    verdict = f"killed-by-{cid}"
                    res["phase"] = phase
                    res["witness"] = r["first"]
                    break
            if verdict:
                break
        if not verdict:
            incs = [k for k, r in runs.items() if r["rc"] not in (0, 1)]
            verdict = "inconclusive" if incs else "survived"
            if incs:
                res["inconclusive_in"] = incs[:6]
                res["witness"] = runs[incs[0]]["inc"] or f"rc={runs[incs[0]]['rc']}"
        res["verdict"] = verdict
        res["runs"] = {k: (v["rc"], v["wall"]) for k, v in runs.items()}
        return res
    except Exception as ex:
        res["verdict"] = "harness-error"
        res["error"] = repr(ex)[:300]
        return res
    finally:
        shutil.rmtree(scratch, ignore_errors=True)


OTHERS = False
FULL = False


def cmd_run(a):
    global OTHERS, FULL
    OTHERS = a.others
    FULL = a.full
    muts = [json.loads(l) for l in open(os.path.join(OUT, "mutants.jsonl"))]
    done = set()
    rp = os.path.join(OUT, "results.jsonl")
    if os.path.exists(rp):
        for l in open(rp):
            try:
                done.add(json.loads(l)["id"])
            except Exception:
                pass
    todo = [m for m in muts if m["id"] not in done]
    if a.files:
        subs = a.files.split(",")
        todo = [m for m in todo if any(s in m["file"] for s in subs)]
    if a.ops:
        todo = [m for m in todo if m["op"] in a.ops.split(",")]
    if a.sample:
        import random

        random.Random(a.seed).shuffle(todo)
        todo = todo[: a.sample]
    if a.max:
        todo = todo[: a.max]
    print(len(todo), "mutants to evaluate", flush=True)
    with concurrent.futures.ThreadPoolExecutor(a.par) as ex, open(rp, "a") as out:
        futs = {ex.submit(eval_mutant, m, a.jobs, a.limit): m for m in todo}
        for n, f in enumerate(concurrent.futures.as_completed(futs)):
            r = f.result()
            out.write(json.dumps(r) + "\n")
            out.flush()
            print(n + 1, r["id"], r["file"].split("uberjob/")[-1], r["line"], r["op"], "->", r["verdict"], (r.get("witness") or "")[:100], flush=True)


def cmd_report(a):
    import collections
    muts = {json.loads(l)["id"]: json.loads(l) for l in open(os.path.join(OUT, "mutants.jsonl"))}
    res = {}
    for l in open(os.path.join(OUT, "results.jsonl")):
        r = json.loads(l)
        res[r["id"]] = r
    by = collections.Counter()
    perfile = collections.defaultdict(collections.Counter)
    killers = collections.Counter()
    for r in res.values():
        v = r["verdict"]
        cat = "killed-by-check" if v.startswith("killed-by-C") else v
        by[cat] += 1
        perfile[r["file"]][cat] += 1
        if v.startswith("killed-by-C"):
            killers[v[-3:]] += 1
    lines = ["# First-order mutation sweep of src/uberjob against the checks (validation of the monitors)", "",
             f"{len(muts)} mutants generated by tools/mutate.py (comparison/boolean/constant/arithmetic swaps, `not` removal, any/all, min/max, "
             "BaseException->Exception, condition forced true/false, statement deletion, `with` (lock) removal, return None, break/continue); "
             f"{len(res)} evaluated. A mutant that the pinned 81-test suite already fails is uninteresting; the others were run against the "
             "checks mapped to the mutated file (the first 200 cases of each check's quick tier, seed 0, stopping at the first violating case). The evaluated "
             "mutants are the first ones of run_function_on_graph.py plus a seeded random sample over all files. Survivors that looked like they might matter "
             "were re-run by hand against the FULL quick tier of their checks (M1005, M0770, M0744, M1593, M0394, M0402: still silent, classified below; "
             "M1059, M0902: real gaps, closed). The low kill ratio is mostly a property of the mutant population: nearly half of what survives the test-suite "
             "sits in rendering cosmetics, argument validation that uberjob.run duplicates, defaults and dead code - none of which any of the 20 properties "
             "speaks about. The sub-agent rounds (KILLS.md) are the sharper instrument; this sweep is the coarse net under them.", "",
             "| outcome | mutants |", "|---|---|"]
    for k, v in by.most_common():
        lines.append(f"| {k} | {v} |")
    alive = by["killed-by-check"] + by["survived"] + by["inconclusive"]
    if alive:
        lines += ["", f"Of the {alive} mutants that pass the test-suite, the checks report a VIOLATION for {by['killed-by-check']} "
                  f"({100.0 * by['killed-by-check'] / alive:.1f} %), are inconclusive for {by['inconclusive']} and silent for {by['survived']}.", ""]
    lines += ["## Which check reported the violation first (order: checks mapped to the file, C-number)", "", "| check | mutants |", "|---|---|"]
    for k, v in sorted(killers.items()):
        lines.append(f"| {k} | {v} |")
    lines += ["", "## Per file", "", "| file | killed by tests | killed by a check | inconclusive | survived |", "|---|---|---|---|---|"]
    for f, c in sorted(perfile.items()):
        lines.append(f"| {f.split('uberjob/')[-1]} | {c['killed-by-tests']} | {c['killed-by-check']} | {c['inconclusive']} | {c['survived']} |")
    notes_path = os.path.join(VERIF, "validation", "mutation_survivor_notes.json")
    notes = json.load(open(notes_path)) if os.path.exists(notes_path) else {}
    lines += ["", "## Survivors and inconclusive mutants (each read by hand; classification in validation/mutation_survivor_notes.json)", "",
              "| id | file:line | change | verdict | classification |", "|---|---|---|---|---|"]
    with open(os.path.join(VERIF, "validation", "mutation_survivors.jsonl"), "w") as f:
        for i, r in sorted(res.items()):
            if r["verdict"] in ("survived", "inconclusive", "harness-error"):
                key = f"{r['file'].split('uberjob/')[-1]}:{r['line']}:{r['op']}:{r['old'][:30]}->{r['new'][:20]}"
                note = notes.get(key, "")
                old = r["old"].replace("|", "\\|").replace("\n", " ")[:50]
                lines.append(f"| {i} | {r['file'].split('uberjob/')[-1]}:{r['line']} | {r['op']}: `{old}` -> `{r['new']}` | {r['verdict']} | {note} |")
                f.write(json.dumps({"key": key, **r}) + "\n")
    open(os.path.join(VERIF, "validation", "MUTATION.md"), "w").write("\n".join(lines) + "\n")
    print("\n".join(lines[:40]))


if __name__ == "__main__":
    ap = argparse.ArgumentParser()
    sub = ap.add_subparsers(dest="cmd", required=True)
    sub.add_parser("gen")
    r = sub.add_parser("run")
    r.add_argument("--par", type=int, default=3)
    r.add_argument("--jobs", type=int, default=5)
    r.add_argument("--limit", type=int, default=200)
    r.add_argument("--files")
    r.add_argument("--ops")
    r.add_argument("--max", type=int)
    r.add_argument("--sample", type=int, help="evaluate a seeded random sample of the not yet evaluated mutants")
    r.add_argument("--seed", type=int, default=1)
    r.add_argument("--others", action="store_true")
    r.add_argument("--full", action="store_true")
    sub.add_parser("report")
    a = ap.parse_args()
    {"gen": cmd_gen, "run": cmd_run, "report": cmd_report}[a.cmd](a)
