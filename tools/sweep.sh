#!/bin/sh
# usage: [CHECKS="01 07"] tools/sweep.sh <tier> <seed>...   -- runs every (or the listed) check, prints one line per check
cd "$(dirname "$0")/.."
tier=$1; shift
for seed in "$@"; do
  for i in ${CHECKS:-01 02 03 04 05 06 07 08 09 10 11 12 13 14 15 16 17 18 19 20}; do
    out=$(VERIF_SEED=$seed ./check C$i --tier $tier 2>&1); rc=$?
    echo "seed=$seed C$i rc=$rc $(echo "$out" | grep -E '^\[C' | head -1)"
    if [ $rc -ne 0 ]; then echo "$out" | grep -E "^(VIOLATION|INCONCLUSIVE|  case)" | head -5; fi
  done
done
