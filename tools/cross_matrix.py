#!/venv/bin/python
"""Informational: run EVERY check (quick tier, first --limit cases) against every seeded change and tabulate who catches what.
Output: validation/CROSS.md + validation/cross.json. Uses scratch copies via VERIF_REPO (never touches /repo)."""
import glob
import json
import os
import shutil
import subprocess
import sys
import tempfile

VERIF = os.path.dirname(os.path.dirname(os.path.abspath(__file__)))
LIMIT = sys.argv[1] if len(sys.argv) > 1 else "400"
CHECKS = [f"C{i:02d}" for i in range(1, 21)]


def main():
    out = {}
    path = os.path.join(VERIF, "validation", "cross.json")
    if os.path.exists(path):
        out = json.load(open(path))
    for d in sorted(glob.glob(os.path.join(VERIF, "seeded", "*"))):
        mid = os.path.basename(d)
        if mid in out and len(out[mid]) == len(CHECKS):
            continue
        scratch = tempfile.mkdtemp(prefix="vmon-cross-")
        try:
            subprocess.run(f"git -C /repo archive HEAD | tar -x -C {scratch}", shell=True, check=True)
            r = subprocess.run(f"cd {scratch} && git init -q . && git apply --whitespace=nowarn {d}/patch.diff", shell=True, capture_output=True, text=True)
            if r.returncode != 0:
                out[mid] = {"error": r.stderr[-200:]}
                continue
            row = out.get(mid, {})
            for c in CHECKS:
                if c in row:
                    continue
                e = dict(os.environ, VERIF_REPO=scratch, VERIF_SEED="0")
                p = subprocess.run([os.path.join(VERIF, "check"), c, "--tier", "quick", "--limit", LIMIT], env=e, cwd=VERIF, capture_output=True, text=True)
                row[c] = {0: "held", 1: "VIOLATION", 2: "inconclusive"}.get(p.returncode, str(p.returncode))
                out[mid] = row
                json.dump(out, open(path, "w"), indent=0)
            print(mid, " ".join(f"{c}:{v[0]}" for c, v in row.items()), flush=True)
        finally:
            shutil.rmtree(scratch, ignore_errors=True)
    with open(os.path.join(VERIF, "validation", "CROSS.md"), "w") as f:
        f.write(f"# Which checks catch which seeded change (quick tier, first {LIMIT} cases of each check, seed 0)\n\n")
        f.write("V = VIOLATION, i = inconclusive (monitor not reached / too few cases in the truncated run), . = held. The own property's check is run in full in KILLS.md; here every check is truncated, so a '.' or 'i' in the own column only means the first cases did not hit it.\n\n")
        f.write("| change | " + " | ".join(c[1:] for c in CHECKS) + " |\n|---|" + "---|" * len(CHECKS) + "\n")
        for mid in sorted(out):
            row = out[mid]
            if "error" in row:
                continue
            f.write(f"| {mid} | " + " | ".join({"VIOLATION": "**V**", "inconclusive": "i", "held": "."}.get(row.get(c), "?") for c in CHECKS) + " |\n")


if __name__ == "__main__":
    main()
