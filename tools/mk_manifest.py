#!/venv/bin/python
"""Regenerates /verif/MANIFEST.json from the table below (kept next to the checks so it stays current)."""
import json
import os
import subprocess

HERE = os.path.dirname(os.path.dirname(os.path.abspath(__file__)))

CHECKS = {
    # id: (level, technique, level text, level note, design ref)
    "C01": ("exploration", "offline history checker over stamped start/end events under bytecode-granular yield injection (sys.monitoring) + deterministic single-preemption enumeration (worker held at every instruction of the engine's bookkeeping, up to its next queue.get) and two-preemption (k1, k2) pair enumeration (sampled in the quick tier, every pair of the 2-predecessor shapes in the thorough tier) + registry runs checked on the run's effective dependencies",
            "Held on the sampled executions: every call start was preceded by the successful end of all its IR ancestors, under seeded random plans, worker counts, both schedulers and preemption injected between engine bytecodes. Sampling, not exhaustion, is the right level for a schedule-quantified property of a GIL interpreter without a controllable scheduler.",
            "harness lock and sequence counter; IR generator's dependency relation; CPython sys.monitoring INSTRUCTION events", "3/C01"),
    "C02": ("exploration", "differential against a reference interpreter + per-call argument identity/order monitors (several W/scheduler/retry/perturbation configurations, single- and two-preemption enumeration, callables with explicit signatures, plans whose direct evaluation raises, unpack with surplus / missing items and generator-valued calls under every retry setting)",
            "Held on the sampled expression graphs: run's value, every call's positional/keyword arguments (order, names, identity of node-free arguments, exact container types) agree with a direct recursive evaluation of the same IR under several (W, scheduler, perturbation) configurations.",
            "reference interpreter (vmon/ir.py Evaluator) mirrors the documented gather rule; deterministic call functions", "3/C02"),
    "C03": ("exploration", "from-scratch evaluator oracle after every step of generated store histories (in-memory logical-clock stores incl. DST-zone instants and skewed clocks, faulted and really interrupted runs; file-backed histories incl. symlinked sources)",
            "Held on the sampled histories (runs, faulted runs, source updates, deletions, fresh_time advances in any order): every successful run's output and every non-source store equal the from-scratch values.",
            "logical-clock in-memory stores; only documented registry patterns generated", "3/C03"),
    "C04": ("exploration", "execution counters in the plan's own functions vs IR ancestor closure, under yield injection, deterministic single-preemption enumeration and two-preemption pair enumeration; hand-built structures (a container object reused and changed in place, sets of tuples holding nodes)",
            "Held on the sampled runs: no call exceeded its allowed attempts; successful runs executed exactly the ancestor closure of the output, once each.",
            "counters under the harness lock; needed set from the IR", "3/C04"),
    "C05": ("exploration", "declarative out-of-date oracle + need fixpoint predicting exact event multisets; silent re-run monitor; file-backed histories with execution counters (byte-identical rebuilds, symlinked sources)",
            "Held on the sampled store states: call executions, store writes, reads and producer side-writes matched the oracle's exact multiset; an immediately repeated run was silent.",
            "oracle reads 'older than' strictly on logical-clock instants; dedicated unstored producers for dependent sources", "3/C05"),
    "C06": ("exploration", "history checker + identity monitors on injected exception objects under yield injection; registry runs with failing writers checked on effective dependencies; unusual failing calls (thousands of dependents below, unprintable function / scope objects, exceptions that cannot be re-created from their args)",
            "Held on the sampled failing runs: nothing downstream of a failed call started; run raised CallError whose call failed in this run and whose __cause__ is the recorded exception object; with one worker it was the first failure.",
            "exceptions remembered by identity under the harness lock", "3/C06"),
    "C07": ("exploration", "logical deadlock detector on kernel thread states (/proc futex parking + ctx-switch counters), bounded-progress livelock criterion for display threads, thread census, cycle placements; fault injection into every user callback (stores, observers, retry, transform_physical, Thread.start); plans built by code with unusual file names judged by a spinning-thread (bounded progress) criterion; retry over exception classes; many nested runs at once",
            "Held on the sampled runs: no logically quiescent state with run un-returned was ever observed, nothing was left running or alive after return, and every cycle among examined nodes was reported before any call/store event.",
            "Linux /proc/self/task/<tid>/{syscall,status}; untimed futex wait = parked; progress=None in these runs", "3/C07"),
    "C08": ("fault_enumeration", "event-indexed fault injection at EVERY boundary event of each generated case + post-cut oracle + repair-run oracles (also with retry absorbing an earlier transient fault, and with the cut placed in the repeated hour of a DST zone)",
            "For each generated case every cut index k (call start, read, write before/after effect, mtime query) x fault kind x configuration was executed; post-cut up-to-date values equal from-scratch values and the repair run rebuilt exactly the out-of-date ones. Exhaustive per case, cases sampled.",
            "in-memory stores atomic per operation; file-backed crash variant uses fork + os._exit", "3/C08"),
    "C09": ("exploration", "offline ordering checker on stamped store/call history (successful runs and failed runs that go on under max_errors) + identity of values returned by normalising stores; single-preemption enumeration of the stale check above a stored value whose other stored input is being rebuilt",
            "Held on the sampled rebuilding runs: write < read-back < consumer start, plain dependents after the write, downstream stores rewritten later, consumers/outputs hold the store's read object.",
            "normalising stores make read values distinguishable from written ones", "3/C09"),
    "C10": ("exploration", "in-flight counters + assertions at logically quiescent states driven by a wave scheduler; count/attempt monitors (incl. retry-exhausting store operations); error limit checked with the limit-crossing worker held at every instruction of its failure bookkeeping; at-most-once execution under single-preemption enumeration of join shapes",
            "Held on the sampled runs: never more than max_workers operations (nor stale_check_max_workers mtime queries) in flight; at every quiescent state exactly min(W, ready) calls were running; max_errors and retry counts/identities as stated.",
            "quiescence from kernel thread state; readiness from the IR", "3/C10"),
    "C11": ("fault_enumeration", "file-operation fault shim (every operation index x errno / persistent same-kind failure / non-Exception abort / os._exit in a forked child, with and without a leftover staging file, RLIMIT_FSIZE short writes; unprivileged writers killed over read-only targets or writing into directories that are not theirs) + strace syscall fault injection; filesystem snapshot oracle",
            "For each generated write every file-operation index was faulted (exception and process death): target holds complete old or complete new bytes, mtime unchanged unless new, no staging file after an exception, leftovers do not disturb later operations.",
            "open/os substitution in uberjob.stores._file_store inside the harness process; strace tier cross-checks on real syscalls", "3/C11"),
    "C12": ("exploration", "round-trip monitors over generated values per store domain and mount kind; a second store object looking between the file operations of a rewrite",
            "Held on the sampled values: read-after-write equal with identical types for every bundled store, direct and mounted; modified time None exactly before the first write and non-decreasing.",
            "values from each store's documented domain", "3/C12"),
    "C13": ("exploration", "identity-level structural snapshots of Plan/Registry (nodes, scopes, edges, entries, and a fingerprint of every other attribute) before vs after every operation kind; concurrent runs vs reference; building on copies",
            "Held on the sampled operations (run with every outcome, dry_run, render, concurrent runs, copy mutations): the caller's Plan and Registry snapshots were identical before and after; concurrent runners returned the reference value.",
            "snapshots compare identities of nodes, edge keys, RegistryValues, stores and stack frames", "3/C13"),
    "C15": ("exploration", "online trace-specification checker on a recording ProgressObserver + independent execution counters (plain, registry incl. failing modified-time queries under every error limit, dry, failing-member, flaky-notification and really interrupted runs)",
            "Held on the sampled runs: enter/exit bracketing, totals before running, per-thread/per-scope balance, completed==total after success, run/stale totals equal to independently counted executions, composite members received identical per-thread sequences.",
            "recording observer stamps under its own lock; scope = user scope + fully qualified function name", "3/C15"),
    "C16": ("exploration", "weak-reference liveness monitor after gc.collect() at call starts, inside completed notifications and at logically quiescent states; release of a result with several consumers finishing together under single-preemption enumeration (worker held at every instruction of run_physical's and the graph runner's bookkeeping)",
            "Held on the sampled successful runs: every result whose consumers had all been fully processed (and that is not part of the output) was dead at the next checkpoint; everything was dead after run returned.",
            "harness keeps only ids and weakrefs; consumers followed through implicit gather nodes", "3/C16"),
    "C17": ("fault_enumeration", "real SIGINT (pthread_kill) at every call index (random and wide plans) + gate/quiescence protocol deciding 'interrupt handled' logically (an interrupt is re-sent only if sys.monitoring shows it never reached uberjob code); strict thread census at the moment run raises; deadlock detector and bounded-progress livelock criterion for displays; C08/C03/C05 oracles on the post-interrupt state",
            "For each generated case every call index (start / steady-state / end position; quick tier: first, last and a seeded sample) received a real SIGINT: run raised KeyboardInterrupt, nothing started after the interrupt was proven handled, in-flight calls completed, all threads exited, observer exited once, stores repairable.",
            "CPython default SIGINT handler; Linux /proc thread states", "3/C17"),
    "C18": ("exploration", "out-of-date oracle on epoch seconds vs the run's rebuilt set, per process time zone and datetime representation",
            "Held on the sampled (zone, representation, instant) combinations incl. DST transition windows and real file stores: the rebuilt set equals the one computed from true instants.",
            "naive datetimes denote local time; tz database present", "3/C18"),
    "C19": ("exploration", "sys._getframe chain captured on the creating source line vs CallError.call.stack_frame and the rendered message, over generated builder modules",
            "Held on the sampled builders (every kind of symbolic call, depths below/at/above the limit, helpers, both failure phases): the failing call is named, its symbolic traceback equals the captured frames with the truncation marker exactly when more exist, and the message lists them outermost first.",
            "capture helper and uberjob call share one source line; depth limit read from the code", "3/C19"),
    "C20": ("exploration", "generated legal notification sequences with a virtual clock driven into the bundled observers; render-exception, final-rendering (counts, attributed-time strings against a reference formatter, IPython display call and widget tree) and elapsed-sum monitors; displays left with error / interrupt exit info",
            "Held on the sampled sequences over arbitrary hashable scopes: no rendering raised (direct or in the update thread), the last console line / HTML document / widget label per scope shows the final counts, attributed elapsed time sums to the busy virtual time.",
            "virtual clock substituted for the module's time; ipywidgets importable", "3/C20"),
    "C14": ("exploration", "event-log monitor during dry runs (stores, call functions and the caller's literal objects) + differential execution of the returned physical plan vs the real run from a restored state, incl. failing modified-time queries and sources the given registry does not cover",
            "Held on the sampled states: dry runs stamped only modified-time queries and changed nothing; executing all nodes of the returned plan alone gave the same event multiset, store contents and output as the real run.",
            "snapshot/restore of in-memory stores", "3/C14"),
}


def main():
    existing = set()
    for cid in CHECKS:
        if os.path.exists(os.path.join(HERE, "vmon", "checks", cid.lower() + ".py")):
            existing.add(cid)
    props = [json.loads(l)["id"] for l in open(os.path.join(HERE, "properties.jsonl"))]
    try:
        fix_commits = subprocess.run(["git", "-C", "/repo", "log", "--format=%h %s"], capture_output=True, text=True).stdout.splitlines()
    except Exception:
        fix_commits = []
    hook_commits = [l.split()[0] for l in fix_commits if "UBERJOB_VERIF" in l or l.split(" ", 1)[1].startswith("verif-hook:")]
    checks = []
    for cid in props:
        if cid not in existing:
            continue
        level, tech, text, note, ref = CHECKS[cid]
        checks.append({
            "property_id": cid,
            "quick_cmd": f"./check {cid} --tier quick",
            "thorough_cmd": f"./check {cid} --tier thorough",
            "evidence_file": f"evidence/{cid}.json",
            "replay_cmd_template": f"./check {cid} --replay {{path}}",
            "engine": "vmon",
            "level_claimed": {"category": level, "text": text, "design_ref": f"DESIGN.md section {ref}"},
            "level_note": note,
            "technique": tech,
        })
    na = [{"property_id": cid, "reason": "check not built in this revision of /verif (see DESIGN.md section 3)"}
          for cid in props if cid not in existing]
    m = {
        "version": 1,
        "setup_cmd": "./setup.sh",
        "hooks": {
            "guard": "UBERJOB_VERIF",
            "enable": "none needed: monitors attach from outside (sys.monitoring on the repository's code objects, module-attribute substitution inside the harness process, /proc thread states, signals, strace); every check imports /repo/src of the current working tree in fresh processes (PYTHONPATH=/repo/src), there is no build step",
            "baseline_off_cmd": "cd /repo && PYTHONDONTWRITEBYTECODE=1 PYTHONPATH=/repo/src /venv/bin/python -m pytest -q -p no:cacheprovider --timeout=900 tests",
            "source_commits": hook_commits,
            "add_only": True,
        },
        "engines": [
            {"name": "vmon", "path": "vmon/", "serves_properties": sorted(existing),
             "kind_free_text": "runtime monitoring: boundary recorders, reference/oracle models evaluated on real executions, schedule perturbation via sys.monitoring, quiescence-based wave scheduler and deadlock detector, fault/crash injectors"},
        ],
        "checks": checks,
        "notes": "Verdicts are three-valued: exit 0 held, exit 1 VIOLATION, exit 2 INCONCLUSIVE (monitor not reached / watchdog). VERIF_SEED, VERIF_TIER, VERIF_JOBS honoured. known_findings.json lists fixed/open defects.",
        "not_applicable": na,
    }
    with open(os.path.join(HERE, "MANIFEST.json"), "w") as f:
        json.dump(m, f, indent=1)
    print("checks:", [c["property_id"] for c in checks], "not claimed:", [n["property_id"] for n in na])


if __name__ == "__main__":
    main()
