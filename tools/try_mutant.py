#!/venv/bin/python
"""Validation helper: apply a patch to a scratch COPY of /repo (outside /repo and /verif), confirm that the pinned
test-suite still passes and that the demonstration fails with / passes without the change, then run the named checks
against the copy (VERIF_REPO) and report their verdicts. The copy is removed afterwards.

usage: try_mutant.py <patch.diff> [--demo demo.py] [--checks C01,C04] [--tier quick] [--limit N] [--seed S]
"""
import argparse
import json
import os
import shutil
import subprocess
import sys
import tempfile
import time

VERIF = os.path.dirname(os.path.dirname(os.path.abspath(__file__)))


def _default_sigint():
    # when this tool runs from a background job SIGINT is inherited as "ignored"; demonstrations that send themselves a Ctrl-C need the default
    import signal

    signal.signal(signal.SIGINT, signal.SIG_DFL)


def sh(cmd, **kw):
    return subprocess.run(cmd, shell=isinstance(cmd, str), capture_output=True, text=True, preexec_fn=_default_sigint, **kw)


def main():
    ap = argparse.ArgumentParser()
    ap.add_argument("patch")
    ap.add_argument("--demo")
    ap.add_argument("--checks", default="")
    ap.add_argument("--tier", default="quick")
    ap.add_argument("--limit", type=int)
    ap.add_argument("--seed", default="0")
    ap.add_argument("--skip-tests", action="store_true")
    ap.add_argument("--json", action="store_true")
    a = ap.parse_args()
    scratch = tempfile.mkdtemp(prefix="vmon-mut-")
    out = {"patch": a.patch}
    try:
        sh(f"git -C /repo archive HEAD | tar -x -C {scratch}")
        r = sh(f"cd {scratch} && git init -q . && git apply --whitespace=nowarn {os.path.abspath(a.patch)}")
        if r.returncode != 0:
            r = sh(f"cd {scratch} && patch -p1 < {os.path.abspath(a.patch)}")
        out["applied"] = r.returncode == 0
        if not out["applied"]:
            out["apply_error"] = (r.stderr or r.stdout)[-400:]
            print(json.dumps(out, indent=1))
            return 1
        env = dict(os.environ, PYTHONDONTWRITEBYTECODE="1", PYTHONPATH=f"{scratch}/src")
        if not a.skip_tests:
            t = sh(f"cd {scratch} && /venv/bin/python -m pytest -q -p no:cacheprovider --timeout=900 tests 2>&1 | tail -3", env=env)
            out["tests"] = t.stdout.strip().splitlines()[-1] if t.stdout.strip() else t.stderr[-200:]
        if a.demo:
            d1 = sh(["/venv/bin/python", "-B", os.path.abspath(a.demo)], env=env, cwd=scratch, timeout=300)
            out["demo_with_patch_exit"] = d1.returncode
            out["demo_with_patch_tail"] = (d1.stdout + d1.stderr)[-300:]
            env0 = dict(os.environ, PYTHONDONTWRITEBYTECODE="1", PYTHONPATH="/repo/src")
            d0 = sh(["/venv/bin/python", "-B", os.path.abspath(a.demo)], env=env0, cwd="/repo", timeout=300)
            out["demo_without_patch_exit"] = d0.returncode
        verdicts = {}
        for c in [c for c in a.checks.split(",") if c]:
            cmd = [os.path.join(VERIF, "check"), c, "--tier", a.tier]
            if a.limit:
                cmd += ["--limit", str(a.limit)]
            t0 = time.time()
            e2 = dict(os.environ, VERIF_REPO=scratch, VERIF_SEED=a.seed)
            r = sh(cmd, env=e2, cwd=VERIF)
            lines = r.stdout.splitlines()
            vio = [l for l in lines if l.startswith("VIOLATION")]
            inc = [l for l in lines if l.startswith("INCONCLUSIVE")]
            first = next((l.strip() for l in lines if l.startswith("  case")), "")
            verdicts[c] = {"exit": r.returncode, "violations": len(vio), "inconclusive": len(inc), "first": first[:300],
                           "first_inconclusive": inc[0][:300] if inc else "", "wall": round(time.time() - t0, 1)}
        out["checks"] = verdicts
    finally:
        shutil.rmtree(scratch, ignore_errors=True)
    print(json.dumps(out, indent=1))
    return 0


if __name__ == "__main__":
    sys.exit(main())
