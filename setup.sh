#!/bin/sh
# Offline setup: third-party helper packages (jsonschema for evidence validation, icontract for hook contracts)
# go into /verif/.deps (git-ignored). Nothing is fetched from the network.
set -e
cd "$(dirname "$0")"
if [ ! -d .deps/jsonschema ] || [ ! -d .deps/icontract ]; then
  PIP_NO_INDEX=1 /venv/bin/pip install -q --no-index --find-links /opt/veriftools/wheels --target .deps jsonschema icontract >/dev/null 2>&1 \
    || echo "setup: offline install of jsonschema/icontract failed (checks still run; evidence validation skipped)" >&2
fi
PYTHONDONTWRITEBYTECODE=1 PYTHONPATH=/repo/src:. /venv/bin/python -B -c "
import uberjob, os, sys
assert os.path.realpath(uberjob.__file__).startswith('/repo/src/'), uberjob.__file__
import vmon.env
print('setup ok: uberjob from', uberjob.__file__)
"
